#!/usr/bin/env python3
"""Merge the per-test / per-shard evidence parts written by the check binaries into evidence/<ID>.json."""
import glob, json, os, sys

def main():
    pid, tier, seed, partsdir, out, wall = sys.argv[1:7]
    parts = []
    for f in sorted(glob.glob(os.path.join(partsdir, pid + ".*.json"))):
        try:
            parts.append((os.path.basename(f), json.load(open(f))))
        except Exception as e:  # a part that was being written when its process died
            print("INFRA: unreadable evidence part %s: %s" % (f, e))
    if not parts:
        print("INFRA: no evidence parts for %s" % pid)
        return 2
    hashes = set()
    cov = {"evaluations": 0, "classes": {}, "samples": [], "parts": {}}
    rules, assumptions, violations = [], [], 0
    exhaustive_parts, all_exh = [], True
    level = parts[0][1]["level"]
    for name, p in parts:
        c = p["coverage"]
        hashes.update(p.get("nt_hashes", []))
        cov["evaluations"] += c.get("evaluations", 0)
        for k, v in c.get("classes", {}).items():
            cov["classes"][k] = cov["classes"].get(k, 0) + v
        for k, v in c.get("excluded_known", {}).items():
            cov.setdefault("excluded_known", {})
            cov["excluded_known"][k] = cov["excluded_known"].get(k, 0) + v
        if c.get("rule") and c["rule"] not in rules:
            rules.append(c["rule"])
        test = name.split(".")[1]
        took = 0
        for s in c.get("samples", []):
            if took < 3 and len(cov["samples"]) < 12:
                cov["samples"].append({"test": test, "case": s})
                took += 1
        cov["parts"][name[:-5]] = {"evaluations": c.get("evaluations", 0), "distinct_nontrivial": c.get("distinct_nontrivial", 0)}
        if c.get("exhaustive"):
            exhaustive_parts.append(test)
        else:
            all_exh = False
        for k, v in c.items():
            if k in ("evaluations", "classes", "samples", "rule", "distinct_nontrivial", "excluded_known", "exhaustive"):
                continue
            if isinstance(v, bool) or not isinstance(v, (int, float)):
                cov.setdefault(k, v)
            else:
                cov[k] = cov.get(k, 0) + v
        for a in p.get("assumptions", []):
            if a not in assumptions:
                assumptions.append(a)
        violations += p.get("violations", 0)
    cov["distinct_nontrivial"] = len(hashes)
    cov["rule"] = " || ".join(rules)
    cov["exhaustive"] = bool(all_exh and exhaustive_parts)
    if exhaustive_parts:
        cov["exhaustive_parts"] = sorted(set(exhaustive_parts))
    ev = {"property_id": pid, "tier": tier, "seed": int(seed), "level": level, "coverage": cov,
          "assumptions": assumptions, "wall_s": float(wall), "violations": violations}
    os.makedirs(os.path.dirname(out), exist_ok=True)
    tmp = out + ".tmp"
    json.dump(ev, open(tmp, "w"), indent=1)
    os.replace(tmp, out)
    print("evidence: %s evaluations=%d distinct_nontrivial=%d violations=%d" % (out, cov["evaluations"], len(hashes), violations))
    return 0

sys.exit(main())

#!/usr/bin/env python3
"""Regenerates MANIFEST.json from the table below (kept as code so the manifest is always schema-valid)."""
import json, subprocess

CLAIMED = {
 # id: (category, text, note, technique, design_ref)
 "C18": ("exploration",
   "Every FileSets configuration of <=2 entries is enumerated against every query path of depth<=4 (exhaustive for that bound) and random configurations built through all four population APIs are compared, in both directions, with an independent definition of 'covers'; counter histories are checked against the budget invariant. Exploration is the right level: the domain is unbounded but the oracle is a 10-line definition, so disagreement is immediately meaningful.",
   "Trusts the reference definition of covers() transcribed from the property text; realPath is inert in the synthetic namespace (host has no /a,/b) and exercised separately on a real symlink forest with the kernel's O_PATH resolution as oracle.",
   "property-based testing (rapid) + generator-driven exhaustive enumeration against a reference model", "§3 C18"),
}

CLAIMED["C01"] = ("exploration",
   "Random policies over the library's whole x86-64 table (sizes biased to the 127/255-entry jump boundaries where the assembler changes strategy) are built through Builder.Build; the exported []SockFilter is validated against a re-implementation of the kernel's acceptance rules and interpreted by an independent cBPF interpreter on a set of numbers that, for compare-only programs, partitions all 2^32 numbers (every constant K and K+-1) x 8 architecture tags x random argument words, and compared with the policy model; sampled numbers are also issued in real children with the filter installed (kernel differential); three policies are brute-forced over all 2^32 numbers x 3 arch tags in the thorough tier; a held filter must read the same after later Build calls, and consecutive Execve calls on one pooled container must each run under their own policy (sample syscalls judged at the kernel).",
   "Trusts internal/bpfvm (cross-validated against the running kernel on every sampled number), the uapi header numbering, and that the partition argument holds only while the program consists of LD abs/JEQ/JGE/JGT/RET (the check classifies each program and reports it). Foreign-ABI behaviour is decided on filter semantics, not at the kernel.",
   "property-based testing (rapid) with a reference interpreter + kernel differential", "§3 C01")

CLAIMED["C02"] = ("exploration",
   "Generated symlink forests and model-guided pathname strings are pushed through 26 traced path syscalls of a real ptrace.Runner run (scripted freestanding tracee); (openat2 also with RESOLVE_* bits, link texts with '..' after a symlink, 38..41-link chains); every call under test is banned so the forest is immutable, and the path/class the policy was shown is compared with the kernel's own O_PATH resolution of the same (base directory, pathname) computed by the harness. Exploration is the right level: the input space (forests x strings x encodings) is unbounded and the oracle is the kernel itself.",
   "Trusts the kernel resolver as oracle; /proc/self|thread-self/{cwd,root,fd/N} prefixes are substituted textually by the (canonical) directory they denote. Calls whose intermediate components do not resolve, and final symlinks under no-follow calls, are counted but not judged.",
   "property-based testing (rapid) with a differential oracle (kernel path resolution)", "§3 C02")
CLAIMED["C03"] = ("exploration",
   "Generated program trees (fork/vfork/thread to depth 3) of traced side-effecting calls on unique markers run under the real ptrace.Runner with a generated decision function marker->{allow,ban,kill}; the program's own report of return values, the file-system effects after the run, the handler log and Result.Status are compared with a small model (ban: -BanRet and no effect; kill: no effect, Disallowed Syscall; allow: real result and effect; every task's traced calls are decided by the handler).",
   "Verdict of runs where a kill happens in a process main does not wait for is only required to be Disallowed Syscall or the program's own ending (timing-dependent). Scheduling between tasks is the OS's; not enumerated.",
   "property-based testing (rapid), probe self-report + side-effect oracle", "§3 C03")
CLAIMED["C15"] = ("exploration",
   "Generated hostile scripts (bad/odd pointers, unterminated and PATH_MAX-sized strings, strings at page ends, 64-bit garbage in int registers, unreadable open_how, unknown/negative/x32 syscall numbers, thread/child death races, children killed at birth, vfork and thread storms, self-stop signals, orphans, symlink cycles through real directories and other hostile file-system shapes as path arguments) run under the real ptrace.Runner with a recording handler and with the real filehandler; the result must be one of the seven program verdicts, consistent with the program's own ending for single-task scripts, never Runner Error or panic text, and the run must return within 15 s.",
   "Death races are sampled, not enumerated: the harness cannot pin the scheduler between wait4 and the tracer's ptrace request. A program that stops itself and stays stopped is not judged as a hang.",
   "property-based testing / grammar-based fuzzing of tracee programs (rapid)", "§3 C15")

CLAIMED["C09"] = ("exploration",
   "The (runner x ending) grid is enumerated by the generator: 4 runners (ptrace, namespace, container sync-before/after) x {exit codes (all 256 in the thorough tier), every terminating signal 1..64 self-sent with default disposition, real SEGV/FPE/ILL/BUS/TRAP faults, SIGSYS from a kill-default filter, SIGKILL sent from the host}; random cases add children that exit first, are killed, keep running or die of a benign signal. Each Result is compared with the README status table.",
   "Rows the kernel cannot produce are counted, not judged: self-sent signals to the pid-namespace init of the namespace runner, and self-sent signals the container init leaves ignored (SIG_IGN survives execve). The exit value is asserted only where the table defines it (exit codes, Signalled).",
   "generator-driven enumeration + property-based testing (rapid) against the documented table", "§3 C09")

CLAIMED["C06"] = ("exploration",
   "A helper process shapes its own descriptor table from the generated case (so the internal socketpair, the exec descriptor and the scratch duplicates land below, inside and above the listed numbers), starts the same forkexec.Runner twice and a probe running as the target reports fstat identity and flags of every open descriptor; the container variant does two consecutive Execves with generated lists. Slot i must be the caller's Files[i], close-on-exec clear, nothing else open, the Runner value unchanged and the second start identical.",
   "The helper marks its own stdio close-on-exec (as the container init does) so that every unlisted descriptor seen in the program is the launcher's doing; listed numbers that are not open in the caller are not generated (caller error).",
   "property-based testing (rapid) with a model of the expected descriptor table; probe self-report", "§3 C06")
CLAIMED["C08"] = ("exploration",
   "Generated RLimits records (zero/non-zero fields, CPUHard below/equal/above CPU, values around 2^32, 2^40, 2^63-1) (and, one case in eight, a record the kernel refuses placed before the last one: the program must then not run) are launched in sequences of 1..3 in each runner and the probe's getrlimit report of all 16 resources is compared with PrepareRLimit() and with the launcher's own limits; six limit-crossing workloads x three runners check the TLE/OLE/MLE/Normal verdicts and measurements; pipe.Buffer is fed by goroutine and real-process writers with totals around the cap and chunk sizes 1..65536 and checked for min(total,N+1) retained prefix bytes, full writes and Done.",
   "CPU/memory verdict cases use >=3x margins; rows a pid-namespace init cannot produce (SIGXCPU/SIGXFSZ dropped by the kernel) are relaxed; container Execve has no time/memory bound of its own (cgroup), so only rlimit-driven verdicts are judged there.",
   "property-based testing (rapid) + enumerated workloads; probe self-report", "§3 C08")

CLAIMED["C04"] = ("exploration",
   "The generator walks the forkexec option lattice: all 16 combinations of the four flags that select one of the three differently ordered copies of the cap-drop/seccomp/sync code (Ptrace, Seccomp, UnshareCgroupAfterSync, SyncFunc) x credential/cap-drop variants x namespace sets are enumerated, and random cases add the remaining dimensions (NoNewPrivs, StopBeforeSeccomp, pivot root + mounts, host/domain name, work dir, clone-into-cgroup2, any namespace subset). The target is a probe that reports ids, capability sets, securebits, no_new_privs, seccomp mode, session, cwd and uts names, while the harness reads /proc/<pid>/{status,ns,cgroup} from the host; the harness plays the minimal tracer for ptrace/stop configurations.",
   "Only the directions the statement gives are asserted (nothing is demanded of the capability sets when neither credentials nor cap dropping were requested; the bounding set is untouched by the code). Ptrace/StopBeforeSeccomp are not combined with a new pid namespace (documented limitation) nor StopBeforeSeccomp with a SyncFunc outside the ptrace+seccomp copy (Start blocks by construction).",
   "generator-driven lattice enumeration + property-based testing (rapid); probe self-report and /proc observation", "§3 C04")

CLAIMED["C07"] = ("fault_enumeration",
   "Every launch step that can be made to fail with real inputs (21 injections: clone into a bad cgroup fd, overlapping id map, denied setgroups, unmapped gid/uid, closed descriptor, ctty on a non-tty, missing pivot root, mount k with a missing source or a target below a file, missing work dir, rlimit k with soft>hard or above the hard limit, malformed/empty filter, failing callback, missing/non-executable/truncated/directory executable, and no failure) is crossed with 8 launch configurations (enumerated) and with random configurations; the container variant crosses SyncFunc {nil, ok, failing} x SyncAfterExec x six targets. Asserted: the error names the step (ChildError Location/Index/errno or the callback's own error), the marker file and report pipe show the target never ran, /proc/self/task/*/children is unchanged on return, the callback sees the launcher image / the right parent / the pid the target later reports and finishes before the marker's mtime.",
   "Steps that cannot be made to fail with real inputs as root (setsid, PR_SET_NO_NEW_PRIVS, capset, PTRACE_TRACEME) are not injected (no fault hook is added). Ptrace/stop-before-seccomp configurations return from Start before execve by design and are covered by C09/C15's tracer runs.",
   "fault enumeration by real inputs + property-based testing (rapid)", "§3 C07")

CLAIMED["C05"] = ("exploration",
   "Generated mount tables (ro/rw binds of directories and single files, tmpfs with/without size, proc ro/rw, nested targets inside tmpfs and binds, a filtered non-existent source; for the container also symlinks, shuffled mask-path lists with existing/missing entries, with/without /dev/null, with/without an InitCommand; binds through Builder.WithBind or as hand-written mount.Mount records with other valid flag words) are built through unshare.Runner (raw in-child mount sequence) and container.Builder; a probe inside runs a modification battery on the root and on every mount, lists / and /../.., and the harness reads /proc/<pid>/mountinfo from the host while the probe waits. Compared with a model: EROFS unless declared writable, effects only in rw bind sources, only configured top-level names, host secret nowhere, /old_root gone, mount table = ro tmpfs root + configured entries.",
   "Sub-mounts inside bind sources and nosuid/nodev flags of rw binds are not asserted (the property does not state them); a mask on top of a configured mount point is not generated; tables the implementation refuses (Build/launch error) are counted, not judged.",
   "property-based testing (rapid) with a model of the expected file-system view; probe self-report + host mountinfo", "§3 C05")

CLAIMED["C10"] = ("exploration",
   "Generated histories (4..24 operations: Ping, Open/Symlink batches over a small name pool so that existing/missing/duplicate cases occur, Delete, Reset, Execve with 13 target kinds x SyncFunc {nil, ok, failing} x SyncAfterExec x context {background, already cancelled, cancelled after 0..12 ms} x program duration, and cutting the transport) run against a fresh environment and against a model of the container file system and of each call's outcome. Per call: exactly one answer within 20 s that matches the model for this call (per-call exit codes, descriptor names, error texts carrying the path); the host endpoint's message sequence of the call must be a word of the protocol in container/doc.go and the container endpoint's log must be its mirror at every quiescent point (tag-verif message hooks on both endpoints); final Ping + Execve(exit 7); after a transport cut every call fails within 5 s.",
   "Requests and replies are kept below the 32 KiB frame; only open descriptors are listed. The two endpoints log from independent goroutines, so only per-direction projections are compared. Scheduling inside the two-event selects is left to the OS (cancel-after delays sweep it).",
   "stateful / model-based property testing (rapid), protocol-automaton check over instrumented message logs", "§3 C10")

CLAIMED["C14"] = ("exploration",
   "Generated Open batches (0..12 items over a 10-name pool with duplicates and sub-directory paths, every access mode x CREAT/EXCL/TRUNC/APPEND/MkdirAll) are issued against a container in whose writable mounts one of {nothing, regular file, mode-000 file, symlink to a file / into another mount / dangling / to a FIFO, FIFO, directory, socket, unstatable path (below a file, below a symlink loop, over-long name)} was planted at each path; Symlink batches and Deletes likewise. The sequential per-item expectation from the lstat state is compared index by index: a descriptor must have the path's (dev, ino), be regular, have the requested access mode and close-on-exec; everything else must be an error at exactly that index; planted objects and symlink targets are untouched; the call returns within 5 s; Ping works afterwards and the host's descriptor count returns to baseline.",
   "Objects are planted from the host through /proc/<init>/root (the same objects a program could create). For a mode-000 regular file and for CREAT|EXCL on an existing file either outcome is accepted, but a returned descriptor must still be the right file.",
   "property-based testing (rapid) with a sequential per-item model", "§3 C14")

CLAIMED["C13"] = ("exploration",
   "Reset: containers with 1..3 tmpfs mounts (one nested), with/without a credential generator; 1..3 generated programs create files, mode-000 directories with content, dot-names, hostile names, symlinks (dangling, to /, /usr, ..), FIFOs, sockets, cross-directory hard links, chains of 80-character names up to depth 60 (> PATH_MAX), up to 2000 files in one directory, files held open by a daemon, each run ending normally, synchronised after exec, refused by its callback before/after exec or cancelled once its files exist; a third part runs consecutive Execve calls with differing parameters (rlimits, descriptors, environment, exec by descriptor/path, filter, sync mode) and requires each program to see exactly its own; after Reset returns nil every tmpfs must be empty seen from the host through /proc/<init>/root and from a later program. Memfd: DupToMemfd over sizes 0..8 MiB around page boundaries from five reader kinds (incl. failing ones): exact content, offset 0, all four seals, every modification attempt fails, also after a sandboxed program was run from the descriptor and attacked /proc/self/exe and the inherited descriptor; failing readers give an error and leak nothing.",
   "A Reset that returns an error is counted, not judged. Writable bind mounts are not part of Reset's contract (doc.go: tmpfs work/tmp directories).",
   "property-based testing (rapid): generated programs + host/later-program observation; round-trip and immutability oracle for memfd", "§3 C13")

CLAIMED["C19"] = ("exploration",
   "Raw socket: generated histories of sends/receives (payload 1..70000 bytes around 32 KiB/64 KiB, 0..260 descriptors around the kernel limit 253, credentials none/self/arbitrary, receive buffers of 1/len-1/len/32K/64K, receiver with/without SO_PASSCRED, up to 3 messages in flight) against a FIFO queue model: payload byte-for-byte, descriptors by fstat identity in order and close-on-exec, credentials as specified, too-small buffers and too many descriptors give an error and nothing truncated is delivered, descriptor count returns to baseline. Framed layer (tag-verif export of the constructor): sequences of real cmd/reply values incl. oversize and too-many-descriptor messages, with/without a small first message; every accepted message is received as an equal value with its descriptors.",
   "Empty payloads are outside the domain (Go's WriteMsgUnix sends a dummy byte; an empty SOCK_SEQPACKET packet is indistinguishable from EOF). One open finding is routed around (KNOWN_FINDINGS.json: first use of a gob type being oversize).",
   "stateful / model-based property testing (rapid) with a queue model; round-trip oracle", "§3 C19")

CLAIMED["C20"] = ("exploration",
   "Generated histories over a tree of groups under a unique prefix on the real v1 hierarchies of this machine and on a real cgroup2 mount in a private mount namespace (helper with second-stage re-exec): New / re-open of existing, externally created and partially pre-existing groups, Random with a collision-prone name source (tag-verif hook), Nest (also onto a name somebody else made first), concurrent creators (also of a multi-level name whose parent is missing), AddProc of multi-threaded parked processes, limit setters with read-back, readers, Destroy of creating and merely-opening handles, 2..8 goroutines creating simultaneously. Model: created handles are distinct existing directories, Existing() is truthful, Destroy removes a group iff the handle created it, external groups survive, every thread of an added process is in the model's group in every hierarchy. Units: a real workload (250 ms CPU, 48 MiB) in a real group checks nanoseconds/bytes; a fake v2 tree with generated file contents checks the v2 readers and writers.",
   "cgroup2 controllers (memory.max, pids.max, cpu.max) cannot be enforced on the real v2 tree of this machine (bound to v1): written values are checked on the fake tree only. Limits the kernel refuses (child above parent) are counted, not judged.",
   "stateful / model-based property testing (rapid) on the real cgroup hierarchies + generated-content differential for readers", "§3 C20")

CLAIMED["C12"] = ("exploration",
   "Trees: generated process trees (forks, double-forked daemons with setsid, threads, ignored signals, setsid/setpgid in the pid-namespace based runners, descendants sleeping / spinning / exiting un-waited) under each runner, the main process exiting, crashing or being cancelled; within 2 s of the run returning nothing carrying the run's tag is alive on the host and no tagged zombie belongs to the host process or the container init; the init has no children and runs the next program. Histories: 5..30 actions over up to 3 environments in one host process (ptrace / namespace runs, Build, failing Build, Destroy, Execve ok / failing before fork / failing after the sync / cancelled / failing callback with trivial programs or trees, Open with kept or closed results, Symlink, Delete, Reset, Ping); after every action descriptors, goroutines and children of the host process equal baseline + per-environment constants + kept files, and every live init's descriptors and children equal their post-Build baseline.",
   "Processes are found by a tag in argv (survives re-parenting and pid namespaces). Orphans re-parented to the VM's init and awaiting its reaping are outside the statement. The settle loop (<= 2 s, two forced GCs) accounts for asynchronous reaping and finalizers; the harness passes an *os.File as Builder.Stderr.",
   "property-based testing (rapid): generated process trees and stateful histories with resource-counter invariants", "§3 C12")

CLAIMED["C11"] = ("exploration",
   "Cancellation instants are generated values: context already cancelled, inside SyncFunc, inside the k-th Handler callback while the tracee is stopped at a syscall (allow or ban answer), at each named host point of Execve (tag-verif hooks), a sweep of 0..15 ms after the call biased to the first 600 us, around the program's own exit; crossed with three runners, five program kinds and 0..250 listed descriptors (which lengthen the launch). The run must return within 10 s with Time Limit Exceeded or the program's genuine verdict (end marker required), never Runner Error / Disallowed Syscall, nothing tagged may survive, the environment must answer Ping. Destroy is started 0..20 ms after or at a named point of an in-flight Execve/Open/Ping: the call returns, Destroy returns within 10 s, init and programs are gone.",
   "Windows between two adjacent instructions of the tracer are hit only statistically by the sweep; pinned instants cover what callbacks and hook points can hold open. The 10 s bound is a correctness signal only together with its cause (program alive and nobody killing it).",
   "property-based testing (rapid) over harness-owned cancellation schedules", "§3 C11")

CLAIMED["C16"] = ("fault_enumeration",
   "A helper controller process performs an operation (container idle / Execve / Open loop / Reset loop, a ptrace run, forkexec.Runner under ptracer.Tracer directly with/without seccomp and credential change, a namespace-runner launch) with a program that forks a signal-ignoring tree; the crash-point list (each named host point of Execve via the tag-verif hooks, inside SyncFunc, right after the hand-shake with the child held by SIGSTOP, inside the 1st/4th Handler callback, while the program runs, idle, before Open/Reset) is enumerated completely and crossed with the program shapes, plus random delays of 0..20 ms. The harness SIGKILLs the controller at the point and requires that within 5 s the container init, every process carrying the run's tag and every other descendant of the controller (recorded with start times just before the kill) is gone.",
   "A *running* namespace-runner program is outside the statement (it names the container controller and the tracer); only the launch hand-shake of the namespace runner is covered. Zombies re-parented to the VM's init do not count as alive.",
   "crash-point enumeration + property-based testing (rapid) with a process-table oracle", "§3 C16")

CLAIMED["C17"] = ("exploration",
   "Generated workloads of 2..16 run descriptors (ptrace runs with 3/20/150 traced path calls on run-specific names and per-run handler decisions, namespace runs, Execve on up to 3 environments, Ping/Open on the same environments, launches that fail in execve, environments being built, some cancelled; application canary pipes opened and closed alongside) are executed once sequentially and once concurrently from a start barrier with 0..2 ms stagger; per descriptor the status, exit code, identity of its marker descriptor, output bytes, return values seen by the program, handler record multiset and SyncFunc pid must be identical in both executions and be the descriptor's own; a separate part holds an Execve in flight for 3.6 s while Ping/Open are called on the same environment.",
   "Schedule coverage is statistical (the OS scheduler inside forkAndExecInChild cannot be pinned); how far a cancelled program got is not compared. The thorough tier repeats the workloads under 8 shards.",
   "metamorphic property testing (rapid): alone vs. concurrent execution of the same workload", "§3 C17")

NOT_YET = {}

def main():
    props = [json.loads(l) for l in open("properties.jsonl")]
    checks, na = [], []
    for p in props:
        i = p["id"]
        if i in CLAIMED:
            cat, text, note, tech, ref = CLAIMED[i]
            checks.append({
                "property_id": i,
                "quick_cmd": "./vcheck %s quick" % i,
                "thorough_cmd": "./vcheck %s thorough" % i,
                "evidence_file": "/verif/evidence/%s.json" % i,
                "replay_cmd_template": "./vcheck %s --replay {path}" % i,
                "engine": "vcheck",
                "level_claimed": {"category": cat, "text": text, "design_ref": ref},
                "level_note": note,
                "technique": tech,
            })
        else:
            na.append({"property_id": i, "reason": NOT_YET.get(i, "check not built yet in this session (design in DESIGN.md §3 %s); not claimed until it is silent on the unchanged tree and kills its mutants" % i)})
    hooks = [l.split()[0] for l in subprocess.run(["git", "-C", "/repo", "log", "--format=%h %s"], capture_output=True, text=True).stdout.splitlines() if " verif hook" in l or l.split(" ", 1)[1].startswith("verif:")]
    m = {
        "version": 1,
        "setup_cmd": "./vcheck setup",
        "hooks": {
            "guard": "verif",
            "enable": "go test -c -tags verif ./checks (module verif, replace github.com/criyle/go-sandbox => /repo)",
            "baseline_off_cmd": "cd /repo && GOFLAGS=-mod=mod go test -json -vet=off -count=1 -timeout 25m ./...",
            "source_commits": hooks,
            "add_only": True,
        },
        "engines": [{"name": "vcheck", "path": "/verif/vcheck", "serves_properties": sorted(CLAIMED),
                     "kind_free_text": "bash driver: builds ./checks (Go, pgregory.net/rapid v1.3.0) against /repo's working tree with -tags verif, runs the property's tests (sharded by rapid seed in the thorough tier), merges evidence parts"}],
        "checks": checks,
        "not_applicable": na,
        "notes": "All checks are property-based tests / fuzzing with explicit oracles (DESIGN.md). Known genuine defects: KNOWN_FINDINGS.json.",
    }
    json.dump(m, open("MANIFEST.json", "w"), indent=1)
    print("claimed:", len(checks), "not claimed:", len(na))

main()

// Package vh is the shared harness of the /verif checks: evidence recording,
// known-finding lookup, replay files and the rapid wrapper every check goes through.
package vh

import (
	"crypto/sha256"
	"encoding/hex"
	"encoding/json"
	"fmt"
	"os"
	"path/filepath"
	"sort"
	"strconv"
	"strings"
	"sync"
	"testing"
	"time"

	"pgregory.net/rapid"
)

// Root returns the /verif directory.
func Root() string {
	if r := os.Getenv("VERIF_ROOT"); r != "" {
		return r
	}
	return "/verif"
}

// Tier is "quick" or "thorough".
func Tier() string {
	if os.Getenv("VERIF_TIER") == "thorough" {
		return "thorough"
	}
	return "quick"
}

// Thorough reports whether the thorough tier was requested.
func Thorough() bool { return Tier() == "thorough" }

// Seed is VERIF_SEED (0 is mapped to 1 by the driver for rapid; reported verbatim here).
func Seed() int {
	n, _ := strconv.Atoi(os.Getenv("VERIF_SEED"))
	return n
}

// Scale multiplies a quick-tier count for the thorough tier.
func Scale(quick, thorough int) int {
	if Thorough() {
		return thorough
	}
	return quick
}

// Infra is an error that is the harness's problem, never a violation (exit 2).
type Infra struct{ Msg string }

func (e Infra) Error() string { return "INFRA: " + e.Msg }

// Infraf builds an Infra error.
func Infraf(f string, a ...any) error { return Infra{fmt.Sprintf(f, a...)} }

// Violation is a property violation with a stable signature key (used for shrinking and for
// matching KNOWN_FINDINGS.json) and a free-text detail.
type Violation struct {
	Key    string
	Detail string
}

func (v *Violation) Error() string { return v.Key + ": " + v.Detail }

// Violf builds a violation.
func Violf(key, f string, a ...any) error { return &Violation{Key: key, Detail: fmt.Sprintf(f, a...)} }

// ---------------------------------------------------------------------------------------------
// Evidence

const maxHashes = 400000

// Recorder accumulates what one check process covered.
type Recorder struct {
	ID, Level, Rule string
	Test            string

	mu          sync.Mutex
	start       time.Time
	evals       int
	nt          map[string]struct{}
	classes     map[string]int
	samples     []any
	ntSamples   int
	excluded    map[string]int
	violations  int
	infra       int
	assumptions []string
	extra       map[string]any
	exhaustive  *bool
	known       map[string]bool
}

// NewRecorder creates the recorder for property id at the given claimed level.
func NewRecorder(t testing.TB, id, level, rule string) *Recorder {
	return &Recorder{ID: id, Level: level, Rule: rule, Test: t.Name(), start: time.Now(),
		nt: map[string]struct{}{}, classes: map[string]int{}, excluded: map[string]int{}, extra: map[string]any{},
		known: map[string]bool{}}
}

func hashOf(v any) string {
	b, err := json.Marshal(v)
	if err != nil {
		b = []byte(fmt.Sprintf("%#v", v))
	}
	s := sha256.Sum256(b)
	return hex.EncodeToString(s[:8])
}

// NewDetachedRecorder is a recorder for helper processes (never written).
func NewDetachedRecorder(id string) *Recorder {
	return &Recorder{ID: id, Test: "helper", start: time.Now(), nt: map[string]struct{}{}, classes: map[string]int{}, excluded: map[string]int{}, extra: map[string]any{}, known: map[string]bool{}}
}

// Classes returns a copy of the class counters (helpers report them back to the parent test).
func (r *Recorder) Classes() map[string]int {
	r.mu.Lock()
	defer r.mu.Unlock()
	m := map[string]int{}
	for k, v := range r.classes {
		m[k] = v
	}
	return m
}

// Case records one evaluated case. key identifies the case for distinctness (any JSON-able value);
// nontrivial says whether it satisfies the property's non-triviality rule.
func (r *Recorder) Case(key any, nontrivial bool, classes ...string) {
	r.mu.Lock()
	defer r.mu.Unlock()
	r.evals++
	for _, c := range classes {
		r.classes[c]++
	}
	if nontrivial {
		if len(r.nt) < maxHashes {
			r.nt[hashOf(key)] = struct{}{}
		}
	}
}

// Evals adds n evaluations that are not individually keyed (inner-loop comparisons).
func (r *Recorder) Evals(n int) {
	r.mu.Lock()
	r.evals += n
	r.mu.Unlock()
}

// Class bumps a class counter.
func (r *Recorder) Class(c string, n int) {
	r.mu.Lock()
	r.classes[c] += n
	r.mu.Unlock()
}

// Sample keeps up to 8 sample cases (the first 3 and then non-trivial ones preferred by the caller).
func (r *Recorder) Sample(v any) {
	r.mu.Lock()
	defer r.mu.Unlock()
	if len(r.samples) < 8 {
		// round-trip through JSON so later mutation of v cannot change the sample
		b, err := json.Marshal(v)
		if err == nil {
			if len(b) > 6000 {
				r.samples = append(r.samples, string(b[:6000])+"…(truncated)")
				return
			}
			var x any
			_ = json.Unmarshal(b, &x)
			r.samples = append(r.samples, x)
		}
	}
}

// WantSample says whether another sample is still wanted.
func (r *Recorder) WantSample() bool {
	r.mu.Lock()
	defer r.mu.Unlock()
	return len(r.samples) < 8
}

// Excluded counts a case routed around an assertion because of an open known finding.
func (r *Recorder) Excluded(key string) {
	r.mu.Lock()
	r.excluded[key]++
	r.mu.Unlock()
}

// Assume records an assumption for the evidence file.
func (r *Recorder) Assume(s string) {
	r.mu.Lock()
	defer r.mu.Unlock()
	for _, a := range r.assumptions {
		if a == s {
			return
		}
	}
	r.assumptions = append(r.assumptions, s)
}

// Extra stores an additional coverage key.
func (r *Recorder) Extra(k string, v any) {
	r.mu.Lock()
	r.extra[k] = v
	r.mu.Unlock()
}

// AddExtra adds n to a numeric extra key.
func (r *Recorder) AddExtra(k string, n int) {
	r.mu.Lock()
	cur, _ := r.extra[k].(int)
	r.extra[k] = cur + n
	r.mu.Unlock()
}

// SetExhaustive marks the run as having enumerated its declared finite sub-domain completely.
func (r *Recorder) SetExhaustive(b bool) {
	r.mu.Lock()
	r.exhaustive = &b
	r.mu.Unlock()
}

// Violations returns the number of violations seen.
func (r *Recorder) Violations() int {
	r.mu.Lock()
	defer r.mu.Unlock()
	return r.violations
}

type evidenceFile struct {
	PropertyID  string         `json:"property_id"`
	Tier        string         `json:"tier"`
	Seed        int            `json:"seed"`
	Level       string         `json:"level"`
	Coverage    map[string]any `json:"coverage"`
	Assumptions []string       `json:"assumptions"`
	WallS       float64        `json:"wall_s"`
	Violations  int            `json:"violations"`
	// part files only; stripped by the merger
	NTHashes []string `json:"nt_hashes,omitempty"`
}

// Write writes the evidence (or the shard part when VERIF_EVIDENCE_OUT is set).
func (r *Recorder) Write() {
	r.mu.Lock()
	defer r.mu.Unlock()
	cov := map[string]any{}
	for k, v := range r.extra {
		cov[k] = v
	}
	cov["evaluations"] = r.evals
	cov["distinct_nontrivial"] = len(r.nt)
	cov["rule"] = r.Rule
	if r.samples == nil {
		r.samples = []any{}
	}
	cov["samples"] = r.samples
	cov["classes"] = r.classes
	if len(r.excluded) > 0 {
		cov["excluded_known"] = r.excluded
	}
	if r.infra > 0 {
		cov["infra_skipped"] = r.infra
	}
	if r.exhaustive != nil {
		cov["exhaustive"] = *r.exhaustive
	}
	ev := evidenceFile{PropertyID: r.ID, Tier: Tier(), Seed: Seed(), Level: r.Level, Coverage: cov,
		Assumptions: r.assumptions, WallS: time.Since(r.start).Seconds(), Violations: r.violations}
	if ev.Assumptions == nil {
		ev.Assumptions = []string{}
	}
	out := ""
	if dir := os.Getenv("VERIF_PARTS_DIR"); dir != "" {
		for h := range r.nt {
			ev.NTHashes = append(ev.NTHashes, h)
		}
		sort.Strings(ev.NTHashes)
		out = filepath.Join(dir, fmt.Sprintf("%s.%s.%s.json", r.ID, sanitize(r.Test), Getenv("VERIF_SHARD", "0")))
	} else {
		out = filepath.Join(Root(), "evidence", r.ID+".json")
	}
	b, _ := json.MarshalIndent(ev, "", " ")
	_ = os.MkdirAll(filepath.Dir(out), 0o755)
	tmp := out + ".tmp"
	if err := os.WriteFile(tmp, b, 0o644); err == nil {
		_ = os.Rename(tmp, out)
	}
}

// ---------------------------------------------------------------------------------------------
// Known findings

type finding struct {
	Property string `json:"property"`
	Key      string `json:"key"`
	What     string `json:"what"`
	Status   string `json:"status"` // open | fixed
	Commit   string `json:"commit,omitempty"`
}

var (
	findingsOnce sync.Once
	findings     []finding
	printedMu    sync.Mutex
	printed      = map[string]bool{}
)

func loadFindings() {
	b, err := os.ReadFile(filepath.Join(Root(), "KNOWN_FINDINGS.json"))
	if err != nil {
		return
	}
	var f struct {
		Findings []finding `json:"findings"`
	}
	if json.Unmarshal(b, &f) == nil {
		findings = f.Findings
	}
}

// Known reports whether (id,key) is listed as an *open* finding; it prints the KNOWN-FINDING line once.
// A "fixed" entry suppresses nothing.
func Known(id, key string) bool {
	findingsOnce.Do(loadFindings)
	for _, f := range findings {
		if f.Property == id && f.Key == key && f.Status == "open" {
			printedMu.Lock()
			if !printed[id+"/"+key] {
				printed[id+"/"+key] = true
				fmt.Printf("KNOWN-FINDING: property=%s %s [%s]\n", id, f.What, key)
			}
			printedMu.Unlock()
			return true
		}
	}
	return false
}

// OpenFindings returns the keys of open findings of a property (so a check can announce each of them
// even when this run's generator happened not to reach it).
func OpenFindings(id string) []string {
	findingsOnce.Do(loadFindings)
	var ks []string
	for _, f := range findings {
		if f.Property == id && f.Status == "open" {
			ks = append(ks, f.Key)
		}
	}
	return ks
}

// ---------------------------------------------------------------------------------------------
// Replay + rapid wrapper

type replayFile struct {
	Property string          `json:"property"`
	Test     string          `json:"test"`
	Key      string          `json:"key"`
	Detail   string          `json:"detail"`
	Case     json.RawMessage `json:"case"`
}

func writeReplay(id, test string, v *Violation, c any) string {
	cb, err := json.Marshal(c)
	if err != nil {
		cb = []byte(`"unserialisable case"`)
	}
	rf := replayFile{Property: id, Test: test, Key: v.Key, Detail: v.Detail, Case: cb}
	b, _ := json.MarshalIndent(rf, "", " ")
	dir := filepath.Join(Root(), "replays", id)
	_ = os.MkdirAll(dir, 0o755)
	s := sha256.Sum256(cb)
	p := filepath.Join(dir, fmt.Sprintf("%s-%s.json", sanitize(v.Key), hex.EncodeToString(s[:5])))
	_ = os.WriteFile(p, b, 0o644)
	return p
}

func sanitize(s string) string {
	var b strings.Builder
	for _, r := range s {
		switch {
		case r >= 'a' && r <= 'z', r >= 'A' && r <= 'Z', r >= '0' && r <= '9', r == '-', r == '_', r == '.':
			b.WriteRune(r)
		default:
			b.WriteByte('_')
		}
	}
	if b.Len() > 60 {
		return b.String()[:60]
	}
	return b.String()
}

// Report handles one violation outside rapid (enumerations): writes the replay, prints the VIOLATION line
// and fails the test (unless it is a listed open finding, in which case it is counted and nil is returned).
func Report(t testing.TB, rec *Recorder, c any, err error) {
	if err == nil {
		return
	}
	if inf, ok := err.(Infra); ok {
		rec.mu.Lock()
		rec.infra++
		rec.mu.Unlock()
		fmt.Printf("INFRA: property=%s %s\n", rec.ID, inf.Msg)
		t.Fatalf("%v", inf)
		return
	}
	v, ok := err.(*Violation)
	if !ok {
		v = &Violation{Key: "error", Detail: err.Error()}
	}
	if Known(rec.ID, v.Key) {
		rec.Excluded(v.Key)
		return
	}
	rec.mu.Lock()
	rec.violations++
	rec.mu.Unlock()
	p := writeReplay(rec.ID, t.Name(), v, c)
	fmt.Printf("VIOLATION property=%s replay=%s\n", rec.ID, p)
	fmt.Printf("  detail: %s: %s\n", v.Key, v.Detail)
	rec.Write()
	t.Errorf("violation %s: %s", v.Key, v.Detail)
}

// ReportAndExit is for a violation that leaves the check process itself unusable (a process-wide lock held for good, say):
// shrinking would only re-run cases that hang. It writes the replay, prints the VIOLATION line, writes the evidence and
// ends the process with status 1.
func ReportAndExit(rec *Recorder, test string, c any, v *Violation) {
	if Known(rec.ID, v.Key) {
		rec.Excluded(v.Key)
		return
	}
	rec.mu.Lock()
	rec.violations++
	rec.mu.Unlock()
	p := writeReplay(rec.ID, test, v, c)
	fmt.Printf("VIOLATION property=%s replay=%s\n", rec.ID, p)
	fmt.Printf("  detail: %s: %s\n", v.Key, v.Detail)
	rec.Write()
	os.Exit(1)
}

// ReplayIfRequested runs the single saved case named by VERIF_REPLAY (if it belongs to this test) through run
// and reports; it returns true when the caller must not generate anything.
func ReplayIfRequested[C any](t *testing.T, rec *Recorder, run func(C) error) bool {
	t.Helper()
	rp := os.Getenv("VERIF_REPLAY")
	if rp == "" {
		return false
	}
	b, err := os.ReadFile(rp)
	if err != nil {
		t.Fatalf("INFRA: cannot read replay: %v", err)
	}
	var rf replayFile
	if err := json.Unmarshal(b, &rf); err != nil {
		t.Fatalf("INFRA: bad replay file: %v", err)
	}
	if rf.Test != t.Name() {
		t.Skipf("replay is for %s", rf.Test)
	}
	var c C
	if err := json.Unmarshal(rf.Case, &c); err != nil {
		t.Fatalf("INFRA: bad replay case: %v", err)
	}
	err = run(c)
	if err != nil {
		if v, ok := err.(*Violation); ok {
			fmt.Printf("VIOLATION property=%s replay=%s\n", rec.ID, rp)
			fmt.Printf("  detail: %s: %s\n", v.Key, v.Detail)
			t.Fatalf("replayed violation: %v", v)
		}
		t.Fatalf("%v", err)
	}
	fmt.Printf("replay passed: %s\n", rp)
	return true
}

// Check runs prop(gen) under rapid (or replays a single saved case when VERIF_REPLAY names a file whose
// "test" field is this test). run returns nil, a *Violation or an Infra error.
func Check[C any](t *testing.T, rec *Recorder, gen func(*rapid.T) C, run func(C) error) {
	t.Helper()
	if ReplayIfRequested(t, rec, run) {
		return
	}

	var (
		lastCase any
		lastV    *Violation
		infraErr error
	)
	defer func() {
		if infraErr != nil {
			fmt.Printf("INFRA: property=%s %v\n", rec.ID, infraErr)
		}
		if lastV != nil {
			rec.mu.Lock()
			rec.violations++
			rec.mu.Unlock()
			p := writeReplay(rec.ID, t.Name(), lastV, lastCase)
			fmt.Printf("VIOLATION property=%s replay=%s\n", rec.ID, p)
			fmt.Printf("  detail: %s: %s\n", lastV.Key, lastV.Detail)
		}
		rec.Write()
	}()
	rapid.Check(t, func(rt *rapid.T) {
		c := gen(rt)
		err := run(c)
		if err == nil {
			return
		}
		if inf, ok := err.(Infra); ok {
			infraErr = inf
			rec.mu.Lock()
			rec.infra++
			rec.mu.Unlock()
			rt.Fatalf("INFRA")
		}
		v, ok := err.(*Violation)
		if !ok {
			v = &Violation{Key: "error", Detail: err.Error()}
		}
		if Known(rec.ID, v.Key) {
			rec.Excluded(v.Key)
			return
		}
		lastCase, lastV = c, v
		rt.Fatalf("violation %s", v.Key)
	})
}

// Getenv with default.
func Getenv(k, d string) string {
	if v := os.Getenv(k); v != "" {
		return v
	}
	return d
}

// ScratchDir makes a per-process scratch directory outside /repo, /verif and /tmp.
func ScratchDir(prefix string) (string, error) {
	base := Getenv("VERIF_SCRATCH", "/var/tmp")
	return os.MkdirTemp(base, "vp-"+prefix+"-")
}

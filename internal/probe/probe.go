// Package probe builds vprobe scripts and parses vprobe reports.
package probe

import (
	"bufio"
	"bytes"
	"fmt"
	"path/filepath"
	"strconv"
	"strings"

	"verif/internal/vh"
)

// Path of the probe binary.
func Path() string { return filepath.Join(vh.Root(), "bin", "vprobe") }

// Script is a vprobe program.
type Script struct {
	Ops  []string
	Strs []string
}

// Str interns a string and returns its "@N" reference.
func (s *Script) Str(v string) string {
	for i, x := range s.Strs {
		if x == v {
			return "@" + strconv.Itoa(i)
		}
	}
	s.Strs = append(s.Strs, v)
	return "@" + strconv.Itoa(len(s.Strs)-1)
}

// StrIdx interns a string and returns its index (for !pend:N style arguments).
func (s *Script) StrIdx(v string) int {
	r := s.Str(v)
	n, _ := strconv.Atoi(r[1:])
	return n
}

// Add appends a raw op and returns its index.
func (s *Script) Add(op string) int {
	s.Ops = append(s.Ops, op)
	return len(s.Ops) - 1
}

// Sys appends a raw syscall; args may be ints (any integer type), or strings in vprobe argument syntax.
func (s *Script) Sys(nr int, args ...any) int {
	var b strings.Builder
	fmt.Fprintf(&b, "sys:%d", nr)
	for _, a := range args {
		b.WriteByte(':')
		switch v := a.(type) {
		case string:
			b.WriteString(v)
		case int:
			b.WriteString(strconv.FormatInt(int64(v), 10))
		case int64:
			b.WriteString(strconv.FormatInt(v, 10))
		case uint64:
			b.WriteString("0x" + strconv.FormatUint(v, 16))
		case uint32:
			b.WriteString("0x" + strconv.FormatUint(uint64(v), 16))
		case uintptr:
			b.WriteString("0x" + strconv.FormatUint(uint64(v), 16))
		default:
			panic(fmt.Sprintf("probe.Sys: bad arg %T", a))
		}
	}
	return s.Add(b.String())
}

// Ref is "$K": the result of op K.
func Ref(k int) string { return "$" + strconv.Itoa(k) }

// Argv builds the argument vector (argv[0] is the conventional program name).
func (s *Script) Argv(tag string, reportFd int) []string {
	a := []string{"vprobe", "VPTAG=" + tag, strconv.Itoa(reportFd)}
	a = append(a, s.Ops...)
	if len(s.Strs) > 0 {
		a = append(a, "--")
		a = append(a, s.Strs...)
	}
	return a
}

// FD is one line of "report:fds".
type FD struct {
	N        int
	Dev, Ino uint64
	Mode     uint32
	FdFlags  int64
	FlFlags  int64
	Offset   int64
}

// Report is a parsed vprobe report.
type Report struct {
	R          map[int]int64 // op index -> return value (last one wins; processes print the same index for nested blocks)
	RAll       map[int][]int64
	Order      []int
	FDs        []FD
	FDsDone    bool
	IDs        map[string][]int64
	Caps       map[string]uint64
	CapsOK     bool
	Limits     map[int][2]uint64
	Cwd        string
	Node       string
	Domain     string
	Mounts     []string
	MountsDone bool
	NS         map[string]string
	Walk       []WalkEnt
	WalkDone   bool
	Cat        map[int]string
	Writes     map[int][2]uint64 // grow: nwrites, shortwrites
	Raw        string
}

// WalkEnt is a "D" line.
type WalkEnt struct {
	Type int
	Path string
	Err  int64
}

// Unescape reverses vprobe's \xNN escaping.
func Unescape(s string) string {
	if !strings.Contains(s, "\\x") {
		return s
	}
	var b strings.Builder
	for i := 0; i < len(s); i++ {
		if s[i] == '\\' && i+3 < len(s) && s[i+1] == 'x' {
			v, err := strconv.ParseUint(s[i+2:i+4], 16, 8)
			if err == nil {
				b.WriteByte(byte(v))
				i += 3
				continue
			}
		}
		b.WriteByte(s[i])
	}
	return b.String()
}

// Parse parses the bytes written to the report descriptor.
func Parse(out []byte) *Report {
	r := &Report{R: map[int]int64{}, RAll: map[int][]int64{}, IDs: map[string][]int64{}, Caps: map[string]uint64{}, Limits: map[int][2]uint64{},
		NS: map[string]string{}, Cat: map[int]string{}, Writes: map[int][2]uint64{}, Raw: string(out)}
	sc := bufio.NewScanner(bytes.NewReader(out))
	sc.Buffer(make([]byte, 1<<20), 1<<26)
	for sc.Scan() {
		ln := sc.Text()
		f := strings.Fields(ln)
		if len(f) == 0 {
			continue
		}
		switch f[0] {
		case "R":
			if len(f) == 3 {
				k, _ := strconv.Atoi(f[1])
				v, _ := strconv.ParseInt(f[2], 10, 64)
				r.R[k] = v
				r.RAll[k] = append(r.RAll[k], v)
				r.Order = append(r.Order, k)
			}
		case "F":
			if len(f) == 2 && f[1] == "end" {
				r.FDsDone = true
			} else if len(f) == 8 {
				var fd FD
				fd.N, _ = strconv.Atoi(f[1])
				fd.Dev, _ = strconv.ParseUint(f[2], 10, 64)
				fd.Ino, _ = strconv.ParseUint(f[3], 10, 64)
				m, _ := strconv.ParseUint(f[4], 10, 32)
				fd.Mode = uint32(m)
				fd.FdFlags, _ = strconv.ParseInt(f[5], 10, 64)
				fd.FlFlags, _ = strconv.ParseInt(f[6], 10, 64)
				fd.Offset, _ = strconv.ParseInt(f[7], 10, 64)
				r.FDs = append(r.FDs, fd)
			}
		case "I":
			if len(f) >= 2 {
				switch f[1] {
				case "uid", "gid", "groups":
					var vs []int64
					for _, x := range f[2:] {
						v, _ := strconv.ParseInt(x, 10, 64)
						vs = append(vs, v)
					}
					r.IDs[f[1]] = vs
				case "pid":
					for i := 1; i+1 < len(f); i += 2 {
						v, _ := strconv.ParseInt(f[i+1], 10, 64)
						r.IDs[f[i]] = []int64{v}
					}
				}
			}
		case "K":
			for i := 1; i+1 < len(f); i += 2 {
				s := f[i+1]
				if strings.HasPrefix(s, "0x") {
					v, _ := strconv.ParseUint(s[2:], 16, 64)
					r.Caps[f[i]] = v
				} else {
					v, _ := strconv.ParseInt(s, 10, 64)
					r.Caps[f[i]] = uint64(v)
				}
			}
			r.CapsOK = true
		case "L":
			if len(f) == 4 && f[2] != "err" {
				k, _ := strconv.Atoi(f[1])
				a, _ := strconv.ParseUint(f[2], 10, 64)
				b, _ := strconv.ParseUint(f[3], 10, 64)
				r.Limits[k] = [2]uint64{a, b}
			}
		case "W":
			if len(f) == 4 { // grow line: W idx nwrites short
				k, _ := strconv.Atoi(f[1])
				a, _ := strconv.ParseUint(f[2], 10, 64)
				b, _ := strconv.ParseUint(f[3], 10, 64)
				r.Writes[k] = [2]uint64{a, b}
			} else if len(f) == 2 {
				r.Cwd = Unescape(f[1])
			} else if len(f) == 3 && f[1] == "err" {
				r.Cwd = "err " + f[2]
			}
		case "U":
			for i := 1; i+1 < len(f); i += 2 {
				if f[i] == "node" {
					r.Node = Unescape(f[i+1])
				}
				if f[i] == "domain" {
					r.Domain = Unescape(f[i+1])
				}
			}
			if len(f) == 4 && f[1] == "node" && f[2] == "domain" { // empty node name
				r.Node, r.Domain = "", Unescape(f[3])
			}
		case "M":
			if len(f) == 2 && f[1] == "end" {
				r.MountsDone = true
			} else {
				r.Mounts = append(r.Mounts, strings.TrimPrefix(ln, "M "))
			}
		case "N":
			if len(f) == 3 {
				r.NS[f[1]] = Unescape(f[2])
			}
		case "D":
			if len(f) == 2 && f[1] == "end" {
				r.WalkDone = true
			} else if len(f) == 4 && f[1] == "err" {
				e, _ := strconv.ParseInt(f[2], 10, 64)
				r.Walk = append(r.Walk, WalkEnt{Err: e, Path: Unescape(f[3])})
			} else if len(f) == 3 {
				t, _ := strconv.Atoi(f[1])
				r.Walk = append(r.Walk, WalkEnt{Type: t, Path: Unescape(f[2])})
			}
		case "C":
			if len(f) >= 2 {
				k, _ := strconv.Atoi(f[1])
				if len(f) >= 3 {
					r.Cat[k] = Unescape(strings.Join(f[2:], " "))
				} else {
					r.Cat[k] = ""
				}
			}
		}
	}
	return r
}

// Package bpfvm is a small classic-BPF interpreter for seccomp filters, written from the kernel's
// documented semantics (bpf_check_classic + seccomp_check_filter + the cBPF instruction set), independent
// of golang.org/x/net/bpf. It runs the exported []syscall.SockFilter on a struct seccomp_data.
package bpfvm

import (
	"encoding/binary"
	"fmt"
	"syscall"
)

// Data is struct seccomp_data.
type Data struct {
	NR   uint32
	Arch uint32
	IP   uint64
	Args [6]uint64
}

func (d *Data) bytes() [64]byte {
	var b [64]byte
	binary.LittleEndian.PutUint32(b[0:], d.NR)
	binary.LittleEndian.PutUint32(b[4:], d.Arch)
	binary.LittleEndian.PutUint64(b[8:], d.IP)
	for i, a := range d.Args {
		binary.LittleEndian.PutUint64(b[16+8*i:], a)
	}
	return b
}

// opcode classes and fields
const (
	clsLD, clsLDX, clsST, clsSTX, clsALU, clsJMP, clsRET, clsMISC = 0, 1, 2, 3, 4, 5, 6, 7
	sizeW, sizeH, sizeB                                           = 0x00, 0x08, 0x10
	modeIMM, modeABS, modeIND, modeMEM, modeLEN, modeMSH          = 0x00, 0x20, 0x40, 0x60, 0x80, 0xa0
	srcK, srcX, srcA                                              = 0x00, 0x08, 0x10
)

// Validate re-implements the kernel's acceptance test for a seccomp cBPF program.
func Validate(p []syscall.SockFilter) error {
	n := len(p)
	if n == 0 || n > 4096 {
		return fmt.Errorf("length %d not in 1..4096", n)
	}
	// memvalid tracking as in check_load_and_stores (conservative: must be stored on every path)
	masks := make([]uint16, n)
	for i := range masks {
		masks[i] = 0xffff
	}
	var memvalid uint16
	for pc, ins := range p {
		code := ins.Code
		memvalid &= masks[pc]
		switch code {
		case clsLD | sizeW | modeABS:
			if ins.K&3 != 0 || ins.K >= 64 {
				return fmt.Errorf("pc %d: load at offset %d (must be aligned and < 64)", pc, ins.K)
			}
		case clsLD | sizeW | modeLEN, clsLDX | sizeW | modeLEN:
		case clsLD | modeIMM, clsLDX | modeIMM:
		case clsLD | modeMEM, clsLDX | modeMEM:
			if ins.K >= 16 {
				return fmt.Errorf("pc %d: mem index %d", pc, ins.K)
			}
			if memvalid&(1<<ins.K) == 0 {
				return fmt.Errorf("pc %d: load from uninitialised mem %d", pc, ins.K)
			}
		case clsST, clsSTX:
			if ins.K >= 16 {
				return fmt.Errorf("pc %d: mem index %d", pc, ins.K)
			}
			memvalid |= 1 << ins.K
		case clsRET | srcK, clsRET | srcA:
		case clsALU | 0x00 | srcK, clsALU | 0x00 | srcX, // add
			clsALU | 0x10 | srcK, clsALU | 0x10 | srcX, // sub
			clsALU | 0x20 | srcK, clsALU | 0x20 | srcX, // mul
			clsALU | 0x30 | srcX,                       // div x
			clsALU | 0x40 | srcK, clsALU | 0x40 | srcX, // or
			clsALU | 0x50 | srcK, clsALU | 0x50 | srcX, // and
			clsALU | 0x60 | srcK, clsALU | 0x60 | srcX, // lsh
			clsALU | 0x70 | srcK, clsALU | 0x70 | srcX, // rsh
			clsALU | 0x80,                              // neg
			clsALU | 0xa0 | srcK, clsALU | 0xa0 | srcX: // xor
			if (code == clsALU|0x60|srcK || code == clsALU|0x70|srcK) && ins.K >= 32 {
				return fmt.Errorf("pc %d: shift by %d", pc, ins.K)
			}
		case clsALU | 0x30 | srcK:
			if ins.K == 0 {
				return fmt.Errorf("pc %d: division by zero", pc)
			}
		case clsMISC | 0x00, clsMISC | 0x80: // tax, txa
		case clsJMP | 0x00: // ja
			if uint64(ins.K) >= uint64(n-pc-1) {
				return fmt.Errorf("pc %d: ja out of range", pc)
			}
			masks[pc+1+int(ins.K)] &= memvalid
			memvalid = 0xffff
		case clsJMP | 0x10 | srcK, clsJMP | 0x10 | srcX,
			clsJMP | 0x20 | srcK, clsJMP | 0x20 | srcX,
			clsJMP | 0x30 | srcK, clsJMP | 0x30 | srcX,
			clsJMP | 0x40 | srcK, clsJMP | 0x40 | srcX:
			if pc+int(ins.Jt)+1 >= n || pc+int(ins.Jf)+1 >= n {
				return fmt.Errorf("pc %d: conditional jump out of range (jt=%d jf=%d len=%d)", pc, ins.Jt, ins.Jf, n)
			}
			masks[pc+1+int(ins.Jt)] &= memvalid
			masks[pc+1+int(ins.Jf)] &= memvalid
			memvalid = 0xffff
		default:
			return fmt.Errorf("pc %d: opcode %#x not allowed in a seccomp filter", pc, code)
		}
	}
	last := p[n-1].Code
	if last != clsRET|srcK && last != clsRET|srcA {
		return fmt.Errorf("program does not end in RET")
	}
	return nil
}

// Trace records what a run of the program looked at.
type Trace struct {
	LoadOffsets map[uint32]bool // offsets of seccomp_data that were read
	Steps       int
}

// Run interprets p on d. It returns the 32-bit filter result.
func Run(p []syscall.SockFilter, d *Data, tr *Trace) (uint32, error) {
	buf := d.bytes()
	var a, x uint32
	var mem [16]uint32
	for pc := 0; pc < len(p); pc++ {
		ins := p[pc]
		if tr != nil {
			tr.Steps++
		}
		code := ins.Code
		switch code & 0x07 {
		case clsLD:
			switch code {
			case clsLD | sizeW | modeABS:
				if ins.K+4 > 64 {
					return 0, fmt.Errorf("pc %d: load beyond seccomp_data", pc)
				}
				if tr != nil {
					if tr.LoadOffsets == nil {
						tr.LoadOffsets = map[uint32]bool{}
					}
					tr.LoadOffsets[ins.K] = true
				}
				a = binary.LittleEndian.Uint32(buf[ins.K:])
			case clsLD | sizeW | modeLEN:
				a = 64
			case clsLD | modeIMM:
				a = ins.K
			case clsLD | modeMEM:
				a = mem[ins.K&15]
			default:
				return 0, fmt.Errorf("pc %d: bad LD %#x", pc, code)
			}
		case clsLDX:
			switch code {
			case clsLDX | sizeW | modeLEN:
				x = 64
			case clsLDX | modeIMM:
				x = ins.K
			case clsLDX | modeMEM:
				x = mem[ins.K&15]
			default:
				return 0, fmt.Errorf("pc %d: bad LDX %#x", pc, code)
			}
		case clsST:
			mem[ins.K&15] = a
		case clsSTX:
			mem[ins.K&15] = x
		case clsALU:
			v := ins.K
			if code&0x08 != 0 {
				v = x
			}
			switch code & 0xf0 {
			case 0x00:
				a += v
			case 0x10:
				a -= v
			case 0x20:
				a *= v
			case 0x30:
				if v == 0 {
					return 0, nil // kernel: return 0 on runtime division by zero
				}
				a /= v
			case 0x40:
				a |= v
			case 0x50:
				a &= v
			case 0x60:
				a <<= v & 31
			case 0x70:
				a >>= v & 31
			case 0x80:
				a = -a
			case 0xa0:
				a ^= v
			default:
				return 0, fmt.Errorf("pc %d: bad ALU %#x", pc, code)
			}
		case clsJMP:
			if code == clsJMP|0x00 {
				pc += int(ins.K)
				continue
			}
			v := ins.K
			if code&0x08 != 0 {
				v = x
			}
			var cond bool
			switch code & 0xf0 {
			case 0x10:
				cond = a == v
			case 0x20:
				cond = a > v
			case 0x30:
				cond = a >= v
			case 0x40:
				cond = a&v != 0
			default:
				return 0, fmt.Errorf("pc %d: bad JMP %#x", pc, code)
			}
			if cond {
				pc += int(ins.Jt)
			} else {
				pc += int(ins.Jf)
			}
		case clsRET:
			if code&0x18 == srcA {
				return a, nil
			}
			return ins.K, nil
		case clsMISC:
			if code&0xf8 == 0x80 {
				a = x
			} else {
				x = a
			}
		}
	}
	return 0, fmt.Errorf("fell off the end of the program")
}

// Shape summarises which instruction kinds a program uses; OnlyConstCompares is true when the result can depend
// on nr only through JEQ/JGT/JGE against constants (then the constants' neighbourhoods partition the 2^32 numbers).
type Shape struct {
	OnlyConstCompares bool
	Constants         []uint32
}

// Analyse computes the Shape of p.
func Analyse(p []syscall.SockFilter) Shape {
	s := Shape{OnlyConstCompares: true}
	for _, ins := range p {
		switch ins.Code {
		case clsLD | sizeW | modeABS, clsRET | srcK, clsJMP | 0x00:
		case clsJMP | 0x10 | srcK, clsJMP | 0x20 | srcK, clsJMP | 0x30 | srcK:
			s.Constants = append(s.Constants, ins.K)
		default:
			s.OnlyConstCompares = false
			s.Constants = append(s.Constants, ins.K)
		}
	}
	return s
}

// Seccomp return-value decoding.
const (
	RetKillProcess = 0x80000000
	RetKillThread  = 0x00000000
	RetTrap        = 0x00030000
	RetErrno       = 0x00050000
	RetUserNotif   = 0x7fc00000
	RetTrace       = 0x7ff00000
	RetLog         = 0x7ffc0000
	RetAllow       = 0x7fff0000
	RetActionFull  = 0xffff0000
	RetData        = 0x0000ffff
)

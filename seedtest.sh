#!/bin/bash
# seedtest.sh <ID> <A|B> <pkgdir> [tier] : confirm a sub-agent's seeded change (demo passes without / fails with, suite unchanged),
# then run our check against it and record the outcome under seeded/<ID>-<L>/.
set -u
ID=$1; L=$2; PKG=$3; TIER=${4:-quick}
export GOFLAGS=-mod=mod GOPROXY=off
WT=/tmp/seed-$ID; OUT=${SEED_SRC:-/tmp/seed-out/$ID}; NAME=${SEED_NAME:-$ID-$L}
[ -d "$WT" ] || git -C /repo worktree add -q --detach "$WT" HEAD
git -C "$WT" checkout -q --detach "$(git -C /repo rev-parse HEAD)" 2>/dev/null
git -C "$WT" checkout -q -- . ; git -C "$WT" clean -qfd
DEMO=$OUT/${L}_demo_test.go; PATCH=$OUT/$L.patch.diff
cp "$DEMO" "$WT/$PKG/zz_demo_${L}_test.go"
( cd "$WT" && go test -vet=off -count=1 -run "Test(C[0-9]+)?(Demo|Seed)?(C[0-9]+)?_?${L}(_|$|[A-Z])" "./$PKG/" ) >/tmp/seed-out/$ID.$L.base.log 2>&1; base=$?
if ! git -C "$WT" apply "$PATCH"; then echo "PATCH DOES NOT APPLY on current HEAD"; exit 3; fi
( cd "$WT" && go test -vet=off -count=1 -run "Test(C[0-9]+)?(Demo|Seed)?(C[0-9]+)?_?${L}(_|$|[A-Z])" "./$PKG/" ) >/tmp/seed-out/$ID.$L.mut.log 2>&1; mut=$?
rm "$WT/$PKG/zz_demo_${L}_test.go"
( cd "$WT" && go build ./... && go test -vet=off -count=1 ./... ) >/tmp/seed-out/$ID.$L.suite.log 2>&1
suite_fail=$(grep -E '^(FAIL\s+\S|--- FAIL)' /tmp/seed-out/$ID.$L.suite.log | grep -v -E 'pkg/cgroup|TestCgroupAll' | wc -l)
if [ "$suite_fail" != 0 ]; then  # the repo has a load-sensitive test (ptracer TestVmReadStr): retry once
  ( cd "$WT" && go test -vet=off -count=1 ./... ) >/tmp/seed-out/$ID.$L.suite.log 2>&1
  suite_fail=$(grep -E '^(FAIL\s+\S|--- FAIL)' /tmp/seed-out/$ID.$L.suite.log | grep -v -E 'pkg/cgroup|TestCgroupAll' | wc -l)
fi
git -C "$WT" checkout -q -- . ; git -C "$WT" clean -qfd
echo "demo on unchanged tree: rc=$base (want 0); demo with change: rc=$mut (want !=0); suite failures besides cgroup: $suite_fail (want 0)"
if [ "$base" != 0 ] || [ "$mut" = 0 ] || [ "$suite_fail" != 0 ]; then echo "SEED NOT CONFIRMED"; tail -n 5 /tmp/seed-out/$ID.$L.base.log /tmp/seed-out/$ID.$L.mut.log; exit 4; fi
# now our check
git -C /repo status --short | grep -q . && { echo "/repo not clean"; exit 5; }
git -C /repo apply "$PATCH" || exit 5
rm -rf /verif/replays/$ID
cd /verif && ./vcheck "$ID" "$TIER" > /tmp/seed-out/$ID.$L.vcheck.log 2>&1; rc=$?
git -C /repo checkout -- .
grep -E '^(VIOLATION|  detail|OK|INFRA)' /tmp/seed-out/$ID.$L.vcheck.log | head -6
echo "vcheck $ID $TIER rc=$rc"
D=/verif/seeded/$NAME; mkdir -p "$D"
rm -rf "$D/replays"; [ -d /verif/replays/$ID ] && mv /verif/replays/$ID "$D/replays"
cp "$PATCH" "$D/patch.diff"; cp "$DEMO" "$D/demo_test.go"; cp "$OUT/$L.meta.txt" "$D/meta.txt" 2>/dev/null
python3 - "$ID" "$L" "$PKG" "$TIER" "$rc" "$D" <<'PY'
import json,sys,os
ID,L,PKG,TIER,rc,D=sys.argv[1:]
meta=open(os.path.join(D,'meta.txt')).read() if os.path.exists(os.path.join(D,'meta.txt')) else ''
first=[l for l in open('/tmp/seed-out/%s.%s.vcheck.log'%(ID,L)) if l.startswith(('VIOLATION','  detail'))][:2]
p=os.path.join(D,'meta.json')
old=json.load(open(p)) if os.path.exists(p) else {}
runs=old.get('runs',[])
runs.append({"cmd":"./vcheck %s %s"%(ID,TIER),"exit":int(rc),"detected":int(rc)==1,"first_report":"".join(first).strip()})
json.dump({"property":ID,"origin":"independent sub-agent given only the property text and a scratch worktree","demo":"demo_test.go copied into %s/, go test -run TestDemo%s ./%s/ : passes on the unchanged tree, fails with patch.diff (confirmed by seedtest.sh)"%(PKG,L,PKG),
 "needs_to_manifest":meta.strip(),"suite":"go build ./... && go test ./... unchanged with the patch (only the known pkg/cgroup failure)","runs":runs},open(p,'w'),indent=1)
PY
exit 0

#!/usr/bin/env python3
"""cleanexec.py <program> [args...]: start a check process in a normalised process environment, so that a verdict never
depends on how the check was invoked (nohup, a harness that ignores or blocks signals, inherited descriptors, umask):
every signal disposition back to default, nothing blocked, descriptors >= 3 closed, umask 022."""
import os, signal, sys

for s in range(1, signal.NSIG):
    if s in (signal.SIGKILL, signal.SIGSTOP):
        continue
    try:
        signal.signal(s, signal.SIG_DFL)
    except (OSError, ValueError, RuntimeError):
        pass
try:
    signal.pthread_sigmask(signal.SIG_SETMASK, [])
except (OSError, ValueError):
    pass
os.closerange(3, 65536)
os.umask(0o022)
os.execv(sys.argv[1], sys.argv[1:])

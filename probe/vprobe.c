/* vprobe — freestanding (no libc, own _start) scripted target for the /verif checks.
 *
 *   vprobe VPTAG=<tag> <reportfd> <op> <op> ... [-- <str0> <str1> ...]
 *
 * Every syscall this program makes is written in the script (plus: mmap/mprotect for hostile-pointer arguments,
 * write to the report descriptor), so traces are not polluted by a C runtime. One line per op on <reportfd>:
 *   "R <opindex> <ret>"  (ret is the raw kernel return value: >=0 or -errno).
 *
 * ops (fields separated by ':'):
 *   sys:<nr>:<a0>..<a5>     raw syscall. args: integer (dec / 0x hex / negative), @N (address of string N),
 *                           $K (return value of op K; $K+<int> adds a constant, e.g. garbage in the upper half), !null !one !kern !unmapped !high (hostile pointers),
 *                           !buf (4 KiB scratch), !pend=N (string N ending with its NUL at the last byte of a page, next
 *                           page PROT_NONE), !pendnz=N (same but *without* NUL), !cross=N (string N crossing a page
 *                           boundary, both mapped), !run=L (L bytes 'a', no NUL, up to a PROT_NONE page), !runz=L (L bytes
 *                           'a' + NUL), !how=F,M,R (struct open_how), !howpend=F (open_how whose first 8 bytes are the
 *                           last 8 of a page, rest PROT_NONE), !hownone (open_how on a PROT_NONE page),
 *                           !at=A,N (string N placed at the exact address A, page(s) mapped MAP_FIXED),
 *                           !wo=N / !wospan=N (string N in / running into a page that is mapped PROT_WRITE only)
 *   fork{ ... }  vfork{ ... }  thread{ ... }  daemon{ ... }     run the nested block in a child / vfork child / thread /
 *                           double-forked setsid'ed signal-ignoring grandchild; R line carries the child's pid
 *   wait                    wait4(-1) until ECHILD          waitn:<k>   reap k children
 *   spin:<ms>  sleep:<ms>   burn CPU time / nanosleep       touch:<MiB>  map and dirty memory
 *   grow:<fd>:<total>:<chunk>   write zero bytes, R = bytes written or first error; "W <idx> <nwrites> <shortwrites>"
 *   mkmany:<n>              create n empty files m0.. in the cwd
 *   raise:<sig>             kill(getpid(), sig)             fault:<segv|fpe|ill|bus|trap>
 *   sigign                  ignore every signal             pause
 *   exit:<n>  texit:<n>     exit_group / exit (this thread only)
 *   waitgo:<fd>             block until a byte can be read from fd (or EOF)
 *   report:<fds|ids|caps|limits|cwd|uts|mounts|ns>
 *   walk:@N:<depth>         recursive listing "D <type> <path>"
 *   cat:@N                  "C <idx> <bytes...>" content of a file (first 4000 bytes, one line, unprintable as \xNN)
 */
typedef unsigned long u64;
typedef long i64;
typedef unsigned int u32;
typedef unsigned short u16;
typedef unsigned char u8;

#define SYS_read 0
#define SYS_write 1
#define SYS_open 2
#define SYS_close 3
#define SYS_fstat 5
#define SYS_lseek 8
#define SYS_mmap 9
#define SYS_mprotect 10
#define SYS_munmap 11
#define SYS_rt_sigaction 13
#define SYS_pause 34
#define SYS_nanosleep 35
#define SYS_getpid 39
#define SYS_clone 56
#define SYS_fork 57
#define SYS_vfork 58
#define SYS_exit 60
#define SYS_wait4 61
#define SYS_kill 62
#define SYS_uname 63
#define SYS_fcntl 72
#define SYS_getcwd 79
#define SYS_readlink 89
#define SYS_getppid 110
#define SYS_setsid 112
#define SYS_getgroups 115
#define SYS_getresuid 118
#define SYS_getresgid 120
#define SYS_getpgid 121
#define SYS_getsid 124
#define SYS_capget 125
#define SYS_prctl 157
#define SYS_gettid 186
#define SYS_getdents64 217
#define SYS_clock_gettime 228
#define SYS_exit_group 231
#define SYS_openat 257
#define SYS_prlimit64 302

static inline i64 sc6(i64 n, i64 a, i64 b, i64 c, i64 d, i64 e, i64 f) {
  i64 ret;
  register i64 r10 __asm__("r10") = d;
  register i64 r8 __asm__("r8") = e;
  register i64 r9 __asm__("r9") = f;
  __asm__ volatile("syscall" : "=a"(ret) : "a"(n), "D"(a), "S"(b), "d"(c), "r"(r10), "r"(r8), "r"(r9) : "rcx", "r11", "memory");
  return ret;
}
#define sc3(n, a, b, c) sc6((n), (i64)(a), (i64)(b), (i64)(c), 0, 0, 0)
#define sc2(n, a, b) sc6((n), (i64)(a), (i64)(b), 0, 0, 0, 0)
#define sc1(n, a) sc6((n), (i64)(a), 0, 0, 0, 0, 0)
#define sc0(n) sc6((n), 0, 0, 0, 0, 0, 0)

void *memset(void *d, int c, u64 n) { u8 *p = d; while (n--) *p++ = (u8)c; return d; }
void *memcpy(void *d, const void *s, u64 n) { u8 *p = d; const u8 *q = s; while (n--) *p++ = *q++; return d; }
static u64 slen(const char *s) { u64 n = 0; while (s[n]) n++; return n; }
static int seq(const char *a, const char *b) { while (*a && *a == *b) { a++; b++; } return *a == *b; }
static int pfx(const char *s, const char *p) { while (*p) { if (*s++ != *p++) return 0; } return 1; }

static int rfd = 2;
static char **strtab; static int nstr;
static char **ops; static int nops;
static i64 *results;

/* ---- output ---- */
struct out { char b[8192]; int n; };
static void oflush(struct out *o) { int off = 0; while (off < o->n) { i64 r = sc3(SYS_write, rfd, o->b + off, o->n - off); if (r <= 0) break; off += (int)r; } o->n = 0; }
static void oc(struct out *o, char c) { if (o->n >= (int)sizeof o->b) oflush(o); o->b[o->n++] = c; }
static void os(struct out *o, const char *s) { while (*s) oc(o, *s++); }
static void ou(struct out *o, u64 v) { char t[24]; int i = 0; if (!v) t[i++] = '0'; while (v) { t[i++] = (char)('0' + v % 10); v /= 10; } while (i) oc(o, t[--i]); }
static void oi(struct out *o, i64 v) { if (v < 0) { oc(o, '-'); ou(o, (u64)(-(v + 1)) + 1); } else ou(o, (u64)v); }
static void ox(struct out *o, u64 v) { char t[20]; int i = 0; if (!v) t[i++] = '0'; while (v) { t[i++] = "0123456789abcdef"[v & 15]; v >>= 4; } os(o, "0x"); while (i) oc(o, t[--i]); }
static void oesc(struct out *o, const char *s, u64 n) { for (u64 i = 0; i < n; i++) { u8 c = (u8)s[i]; if (c >= 33 && c < 127 && c != '\\') oc(o, (char)c); else { oc(o, '\\'); oc(o, 'x'); oc(o, "0123456789abcdef"[c >> 4]); oc(o, "0123456789abcdef"[c & 15]); } } }
static void rline(int idx, i64 ret) { struct out o; o.n = 0; os(&o, "R "); oi(&o, idx); oc(&o, ' '); oi(&o, ret); oc(&o, '\n'); oflush(&o); }

/* ---- parsing ---- */
static i64 pint(const char *s, const char **end) {
  int neg = 0; u64 v = 0;
  if (*s == '-') { neg = 1; s++; }
  if (s[0] == '0' && (s[1] == 'x' || s[1] == 'X')) { s += 2; for (;;) { char c = *s; int d; if (c >= '0' && c <= '9') d = c - '0'; else if (c >= 'a' && c <= 'f') d = c - 'a' + 10; else if (c >= 'A' && c <= 'F') d = c - 'A' + 10; else break; v = v * 16 + (u64)d; s++; } }
  else while (*s >= '0' && *s <= '9') { v = v * 10 + (u64)(*s - '0'); s++; }
  if (end) *end = s;
  return neg ? -(i64)v : (i64)v;
}
/* returns pointer to field k (0-based, after the op name) of op string, or 0 */
static const char *field(const char *op, int k) {
  const char *s = op; int i = -1;
  while (*s) { if (*s == ':') { i++; if (i == k) return s + 1; } s++; }
  return 0;
}
static u64 flen(const char *f) { u64 n = 0; while (f[n] && f[n] != ':') n++; return n; }

#define PAGE 4096UL
static void *map_pages(u64 npages, int guard_last) {
  i64 p = sc6(SYS_mmap, 0, (i64)(npages * PAGE), 3, 0x22, -1, 0);
  if (p < 0 && p > -4096) return 0;
  if (guard_last) sc3(SYS_mprotect, p + (i64)((npages - 1) * PAGE), PAGE, 0);
  return (void *)p;
}
static const char *strn(i64 n) { return (n >= 0 && n < nstr) ? strtab[n] : ""; }

static char scratch[4096] __attribute__((aligned(64)));

static i64 parg(const char *f) {
  if (!f || !*f || *f == ':') return 0;
  if (*f == '@') return (i64)strn(pint(f + 1, 0));
  if (*f == '$') { const char *e; i64 k = pint(f + 1, &e); i64 v = (k >= 0 && k < nops) ? results[k] : -1; if (*e == '+') v += pint(e + 1, 0); return v; }
  if (*f != '!') return pint(f, 0);
  f++;
  if (pfx(f, "null")) return 0;
  if (pfx(f, "one")) return 1;
  if (pfx(f, "kern")) return (i64)0xffff800000001000UL;
  if (pfx(f, "high")) return (i64)0xfffffffffffffff0UL;
  if (pfx(f, "unmapped")) { void *p = map_pages(2, 0); if (!p) return 8; sc2(SYS_munmap, p, 2 * PAGE); return (i64)p + 100; }
  if (pfx(f, "buf")) return (i64)scratch;
  if (pfx(f, "pendnz=") || pfx(f, "pend=")) {
    int nz = pfx(f, "pendnz=");
    const char *s = strn(pint(f + (nz ? 7 : 5), 0)); u64 l = slen(s) + (nz ? 0 : 1);
    u64 np = (l + PAGE - 1) / PAGE + 1; if (np < 2) np = 2;
    char *p = map_pages(np, 1); if (!p) return 8;
    char *d = p + (np - 1) * PAGE - l; memcpy(d, s, l); return (i64)d;
  }
  if (pfx(f, "cross=")) {
    const char *s = strn(pint(f + 6, 0)); u64 l = slen(s) + 1;
    char *p = map_pages(3, 1); if (!p) return 8;
    u64 before = l / 2; if (before == 0) before = 1; if (before > PAGE) before = PAGE;
    char *d = p + PAGE - before; memcpy(d, s, l); return (i64)d;
  }
  if (pfx(f, "runz=") || pfx(f, "run=")) {
    int z = pfx(f, "runz=");
    u64 l = (u64)pint(f + (z ? 5 : 4), 0); u64 tot = l + (z ? 1 : 0);
    u64 np = (tot + PAGE - 1) / PAGE + 1; if (np < 2) np = 2;
    char *p = map_pages(np, 1); if (!p) return 8;
    char *d = p + (np - 1) * PAGE - tot; memset(d, 'a', l); if (z) d[l] = 0; return (i64)d;
  }
  if (pfx(f, "wospan=") || pfx(f, "wo=")) {
    /* string N in a page mapped PROT_WRITE only (readable for the CPU and the kernel on x86, not for process_vm_readv);
       wospan: the string starts in a readable page and continues in the write-only one */
    int span = pfx(f, "wospan=");
    const char *s = strn(pint(f + (span ? 7 : 3), 0)); u64 l = slen(s) + 1;
    if (l > PAGE) return (i64)s;
    char *p = map_pages(3, 1); if (!p) return 8;
    u64 before = span ? l / 2 : 0; if (span && before == 0) before = 1;
    char *d = p + PAGE - before; memcpy(d, s, l);
    sc3(SYS_mprotect, (i64)(p + PAGE), PAGE, 2 /* PROT_WRITE */);
    return (i64)d;
  }
  if (pfx(f, "at=")) {
    /* string N at the exact address A (what a Go tracee's heap strings look like: 0xc000......) */
    const char *e; u64 a = (u64)pint(f + 3, &e); const char *s = strn((*e == ',') ? pint(e + 1, 0) : 0); u64 l = slen(s) + 1;
    u64 base = a & ~(PAGE - 1); u64 np = ((a + l) - base + PAGE - 1) / PAGE;
    i64 p = sc6(SYS_mmap, (i64)base, (i64)(np * PAGE), 3, 0x32 /* PRIVATE|ANONYMOUS|FIXED */, -1, 0);
    if (p < 0 && p > -4096) return 8;
    memcpy((char *)a, s, l); return (i64)a;
  }
  if (pfx(f, "howpend=")) {
    char *p = map_pages(2, 1); if (!p) return 8;
    u64 *d = (u64 *)(p + PAGE - 8); *d = (u64)pint(f + 8, 0); return (i64)d;
  }
  if (pfx(f, "hownone")) { char *p = map_pages(2, 1); if (!p) return 8; return (i64)(p + PAGE); }
  if (pfx(f, "how=")) {
    const char *e; u64 *h = (u64 *)(scratch + 2048);
    h[0] = (u64)pint(f + 4, &e); h[1] = (*e == ',') ? (u64)pint(e + 1, &e) : 0; h[2] = (*e == ',') ? (u64)pint(e + 1, &e) : 0;
    return (i64)h;
  }
  return 0;
}

/* ---- helpers for ops ---- */
static u64 cpu_ns(void) { u64 ts[2]; sc2(SYS_clock_gettime, 2 /*PROCESS_CPUTIME*/, ts); return ts[0] * 1000000000UL + ts[1]; }
static volatile u64 sink;
static void spin_ms(u64 ms) { u64 end = cpu_ns() + ms * 1000000UL; while (cpu_ns() < end) { for (int i = 0; i < 20000; i++) sink += (u64)i * 2654435761UL; } }
static void sleep_ms(u64 ms) { u64 ts[2]; ts[0] = ms / 1000; ts[1] = (ms % 1000) * 1000000UL; while (sc2(SYS_nanosleep, ts, ts) == -4) {} }
static void ignore_all(void) { struct { void *h; u64 flags; void *rest; u64 mask; } sa; for (int s = 1; s <= 64; s++) { sa.h = (void *)1; sa.flags = 0; sa.rest = 0; sa.mask = 0; sc6(SYS_rt_sigaction, s, (i64)&sa, 0, 8, 0, 0); } }

struct kstat { u64 dev, ino, nlink; u32 mode, uid, gid, pad; u64 rdev; i64 size, blksize, blocks; u64 at, atn, mt, mtn, ct, ctn; i64 unused[3]; };

static void report_fds(void) {
  struct out o; o.n = 0;
  for (int fd = 0; fd < 1024; fd++) {
    struct kstat st;
    i64 r = sc2(SYS_fstat, fd, &st);
    if (r < 0) continue;
    os(&o, "F "); oi(&o, fd); oc(&o, ' '); ou(&o, st.dev); oc(&o, ' '); ou(&o, st.ino); oc(&o, ' '); ou(&o, st.mode);
    oc(&o, ' '); oi(&o, sc2(SYS_fcntl, fd, 1)); oc(&o, ' '); oi(&o, sc2(SYS_fcntl, fd, 3)); oc(&o, ' '); oi(&o, sc3(SYS_lseek, fd, 0, 1)); oc(&o, '\n');
  }
  os(&o, "F end\n"); oflush(&o);
}
static void report_ids(void) {
  struct out o; o.n = 0; u32 a, b, c; u32 g[128];
  sc3(SYS_getresuid, &a, &b, &c); os(&o, "I uid "); ou(&o, a); oc(&o, ' '); ou(&o, b); oc(&o, ' '); ou(&o, c); oc(&o, '\n');
  sc3(SYS_getresgid, &a, &b, &c); os(&o, "I gid "); ou(&o, a); oc(&o, ' '); ou(&o, b); oc(&o, ' '); ou(&o, c); oc(&o, '\n');
  i64 n = sc2(SYS_getgroups, 128, g); os(&o, "I groups"); for (i64 i = 0; i < n; i++) { oc(&o, ' '); ou(&o, g[i]); } oc(&o, '\n');
  os(&o, "I pid "); oi(&o, sc0(SYS_getpid)); os(&o, " ppid "); oi(&o, sc0(SYS_getppid)); os(&o, " sid "); oi(&o, sc1(SYS_getsid, 0)); os(&o, " pgid "); oi(&o, sc1(SYS_getpgid, 0)); os(&o, " tid "); oi(&o, sc0(SYS_gettid)); oc(&o, '\n');
  oflush(&o);
}
static void report_caps(void) {
  struct out o; o.n = 0; struct { u32 ver; int pid; } h; struct { u32 e, p, i; } d[2];
  h.ver = 0x20080522; h.pid = 0; memset(d, 0xff, sizeof d);
  i64 r = sc2(SYS_capget, &h, d);
  os(&o, "K capget "); oi(&o, r); os(&o, " eff "); ox(&o, ((u64)d[1].e << 32) | d[0].e); os(&o, " prm "); ox(&o, ((u64)d[1].p << 32) | d[0].p); os(&o, " inh "); ox(&o, ((u64)d[1].i << 32) | d[0].i);
  u64 amb = 0; for (int c = 0; c < 41; c++) { if (sc6(SYS_prctl, 47, 1, c, 0, 0, 0) == 1) amb |= 1UL << c; }
  os(&o, " amb "); ox(&o, amb);
  u64 bnd = 0; for (int c = 0; c < 41; c++) { if (sc6(SYS_prctl, 23, c, 0, 0, 0, 0) == 1) bnd |= 1UL << c; }
  os(&o, " bnd "); ox(&o, bnd);
  os(&o, " securebits "); oi(&o, sc6(SYS_prctl, 27, 0, 0, 0, 0, 0));
  os(&o, " nnp "); oi(&o, sc6(SYS_prctl, 39, 0, 0, 0, 0, 0));
  os(&o, " seccomp "); oi(&o, sc6(SYS_prctl, 21, 0, 0, 0, 0, 0));
  os(&o, " keepcaps "); oi(&o, sc6(SYS_prctl, 7, 0, 0, 0, 0, 0));
  oc(&o, '\n'); oflush(&o);
}
static void report_limits(void) {
  struct out o; o.n = 0;
  for (int r = 0; r < 16; r++) { u64 l[2]; i64 e = sc6(SYS_prlimit64, 0, r, 0, (i64)l, 0, 0); os(&o, "L "); oi(&o, r); oc(&o, ' '); if (e < 0) { os(&o, "err "); oi(&o, e); } else { ou(&o, l[0]); oc(&o, ' '); ou(&o, l[1]); } oc(&o, '\n'); }
  oflush(&o);
}
static void report_cwd(void) { struct out o; o.n = 0; char b[4096]; i64 r = sc2(SYS_getcwd, b, sizeof b); os(&o, "W "); if (r < 0) { os(&o, "err "); oi(&o, r); } else oesc(&o, b, slen(b)); oc(&o, '\n'); oflush(&o); }
static void report_uts(void) { struct out o; o.n = 0; char u[6][65]; memset(u, 0, sizeof u); sc1(SYS_uname, u); os(&o, "U node "); oesc(&o, u[1], slen(u[1])); os(&o, " domain "); oesc(&o, u[5], slen(u[5])); oc(&o, '\n'); oflush(&o); }
static void cat_to(struct out *o, const char *path, u64 max) {
  i64 fd = sc3(SYS_open, path, 0, 0); if (fd < 0) { os(o, "err "); oi(o, fd); return; }
  char b[1024]; u64 tot = 0; for (;;) { i64 r = sc3(SYS_read, fd, b, sizeof b); if (r <= 0) break; if (tot + (u64)r > max) r = (i64)(max - tot); oesc(o, b, (u64)r); tot += (u64)r; if (tot >= max) break; }
  sc1(SYS_close, fd);
}
static void report_mounts(void) {
  struct out o; o.n = 0; i64 fd = sc3(SYS_open, "/proc/self/mountinfo", 0, 0);
  if (fd < 0) { os(&o, "M err "); oi(&o, fd); oc(&o, '\n'); oflush(&o); return; }
  char b[1024]; int bol = 1; for (;;) { i64 r = sc3(SYS_read, fd, b, sizeof b); if (r <= 0) break; for (i64 i = 0; i < r; i++) { if (bol) { os(&o, "M "); bol = 0; } oc(&o, b[i]); if (b[i] == '\n') bol = 1; } }
  if (!bol) oc(&o, '\n');
  os(&o, "M end\n"); sc1(SYS_close, fd); oflush(&o);
}
static void report_ns(void) {
  static const char *k[] = {"user", "pid", "mnt", "uts", "ipc", "net", "cgroup", 0}; struct out o; o.n = 0;
  for (int i = 0; k[i]; i++) { char p[64] = "/proc/self/ns/"; u64 l = slen(p); memcpy(p + l, k[i], slen(k[i]) + 1); char b[128]; i64 r = sc3(SYS_readlink, p, b, sizeof b - 1); os(&o, "N "); os(&o, k[i]); oc(&o, ' '); if (r < 0) { os(&o, "err "); oi(&o, r); } else oesc(&o, b, (u64)r); oc(&o, '\n'); }
  oflush(&o);
}
struct dent { u64 ino; i64 off; u16 reclen; u8 type; char name[]; };
static void walk(struct out *o, char *path, u64 plen, int depth) {
  i64 fd = sc3(SYS_open, path, 0x10000 /*O_DIRECTORY*/, 0);
  if (fd < 0) { os(o, "D err "); oi(o, fd); oc(o, ' '); oesc(o, path, plen); oc(o, '\n'); return; }
  static char dbuf[8][4096]; char *buf = dbuf[depth & 7];
  for (;;) {
    i64 n = sc3(SYS_getdents64, fd, buf, 4096); if (n <= 0) break;
    for (i64 off = 0; off < n;) {
      struct dent *d = (struct dent *)(buf + off); off += d->reclen;
      if (seq(d->name, ".") || seq(d->name, "..")) continue;
      u64 nl = slen(d->name); if (plen + 1 + nl + 1 > 4000) continue;
      u64 np = plen; if (plen > 1) path[np++] = '/'; memcpy(path + np, d->name, nl + 1); np += nl;
      os(o, "D "); oi(o, d->type); oc(o, ' '); oesc(o, path, np); oc(o, '\n');
      if (d->type == 4 && depth > 1) { char save[4096]; memcpy(save, buf, 4096); walk(o, path, np, depth - 1); memcpy(buf, save, 4096); }
      path[plen] = 0;
    }
  }
  sc1(SYS_close, fd);
}

/* ---- block structure ---- */
static int match_close(int i) { int d = 0; for (; i < nops; i++) { u64 l = slen(ops[i]); if (l && ops[i][l - 1] == '{') d++; if (seq(ops[i], "}")) { d--; if (d == 0) return i; } } return nops; }
static void run(int from, int to);

struct targ { int from, to; };
static void thread_main(void *a) { struct targ *t = a; run(t->from, t->to); }

static i64 spawn_thread(struct targ *t) {
  char *stk = map_pages(17, 0); if (!stk) return -12;
  u64 *top = (u64 *)(stk + 17 * PAGE - 64);
  top[0] = (u64)thread_main; top[1] = (u64)t;
  i64 ret; register i64 r10 __asm__("r10") = 0; register i64 r8 __asm__("r8") = 0;
  i64 flags = 0x100 | 0x200 | 0x400 | 0x800 | 0x10000 | 0x40000; /* VM FS FILES SIGHAND THREAD SYSVSEM */
  __asm__ volatile(
      "syscall\n\t"
      "test %%rax,%%rax\n\t"
      "jnz 1f\n\t"
      "pop %%rax\n\t"
      "pop %%rdi\n\t"
      "call *%%rax\n\t"
      "mov $60,%%eax\n\t"
      "xor %%edi,%%edi\n\t"
      "syscall\n\t"
      "1:\n\t"
      : "=a"(ret) : "a"((i64)SYS_clone), "D"(flags), "S"(top), "d"(0L), "r"(r10), "r"(r8) : "rcx", "r11", "memory");
  return ret;
}

static void child_block(int from, int to) { run(from, to); sc1(SYS_exit_group, 0); for (;;) {} }

static void run(int from, int to) {
  for (int i = from; i < to; i++) {
    const char *op = ops[i];
    if (pfx(op, "sys:")) {
      i64 nr = pint(field(op, 0), 0);
      i64 a[6]; for (int k = 0; k < 6; k++) a[k] = parg(field(op, k + 1));
      i64 r = sc6(nr, a[0], a[1], a[2], a[3], a[4], a[5]);
      results[i] = r; rline(i, r);
    } else if (seq(op, "fork{") || seq(op, "vfork{") || seq(op, "daemon{") || seq(op, "thread{")) {
      int end = match_close(i);
      if (seq(op, "thread{")) {
        static struct targ targs[64]; static int nt; struct targ *t = &targs[nt++ & 63]; t->from = i + 1; t->to = end;
        i64 r = spawn_thread(t); results[i] = r; rline(i, r);
      } else if (seq(op, "fork{")) {
        i64 p = sc0(SYS_fork);
        if (p == 0) child_block(i + 1, end);
        results[i] = p; rline(i, p);
      } else if (seq(op, "vfork{")) {
        volatile int cf = i + 1, ct = end;
        i64 p = sc0(SYS_vfork);
        if (p == 0) child_block(cf, ct);
        results[i] = p; rline(i, p);
      } else {
        i64 p = sc0(SYS_fork);
        if (p == 0) {
          sc0(SYS_setsid); ignore_all();
          i64 q = sc0(SYS_fork);
          if (q == 0) child_block(i + 1, end);
          rline(i, q);
          sc1(SYS_exit_group, 0);
        }
        sc6(SYS_wait4, p, 0, 0, 0, 0, 0);
        results[i] = p;
      }
      i = end;
    } else if (seq(op, "}")) {
      /* stray */
    } else if (seq(op, "wait")) {
      i64 r; int n = 0; for (;;) { r = sc6(SYS_wait4, -1, 0, 0x40000000 /*__WALL*/, 0, 0, 0); if (r == -4) continue; if (r < 0) break; n++; }
      results[i] = n; rline(i, n);
    } else if (pfx(op, "waitn:")) {
      i64 k = pint(field(op, 0), 0); int n = 0; int st = 0; i64 last = 0;
      while (n < k) { i64 r = sc6(SYS_wait4, -1, (i64)&st, 0x40000000, 0, 0, 0); if (r == -4) continue; if (r < 0) break; n++; last = st; }
      results[i] = last; rline(i, last);
    } else if (pfx(op, "spin:")) { spin_ms((u64)pint(field(op, 0), 0)); rline(i, 0);
    } else if (pfx(op, "sleep:")) { sleep_ms((u64)pint(field(op, 0), 0)); rline(i, 0);
    } else if (pfx(op, "touch:")) {
      u64 mb = (u64)pint(field(op, 0), 0); i64 p = sc6(SYS_mmap, 0, (i64)(mb << 20), 3, 0x22, -1, 0);
      if (p > 0 || p < -4096) { volatile char *c = (char *)p; for (u64 off = 0; off < (mb << 20); off += PAGE) c[off] = 1; }
      results[i] = (p < 0 && p > -4096) ? p : 0; rline(i, results[i]);
    } else if (pfx(op, "grow:")) {
      const char *e; i64 fd = pint(field(op, 0), &e); u64 total = (u64)pint(field(op, 1), 0); u64 chunk = (u64)pint(field(op, 2), 0);
      static char z[65536]; if (chunk == 0 || chunk > sizeof z) chunk = sizeof z;
      memset(z, 'x', chunk);
      u64 done = 0, nw = 0, shortw = 0; i64 err = 0;
      while (done < total) { u64 c = total - done < chunk ? total - done : chunk; i64 r = sc3(SYS_write, fd, z, c); if (r < 0) { if (r == -4) continue; err = r; break; } nw++; if ((u64)r != c) shortw++; done += (u64)r; }
      struct out o; o.n = 0; os(&o, "W "); oi(&o, i); oc(&o, ' '); ou(&o, nw); oc(&o, ' '); ou(&o, shortw); oc(&o, '\n'); oflush(&o);
      results[i] = err ? err : (i64)done; rline(i, results[i]);
    } else if (pfx(op, "mkmany:")) {
      /* mkmany:<n> creates n empty files m0..m<n-1> in the current directory */
      i64 n = pint(field(op, 0), 0), made = 0;
      for (i64 k = 0; k < n; k++) {
        char nm[24]; int l = 0; nm[l++] = 'm'; char t[20]; int ti = 0; i64 v = k; if (!v) t[ti++] = '0'; while (v) { t[ti++] = (char)('0' + v % 10); v /= 10; } while (ti) nm[l++] = t[--ti]; nm[l] = 0;
        i64 fd = sc6(SYS_openat, -100, (i64)nm, 0x41 /*O_WRONLY|O_CREAT*/, 0644, 0, 0);
        if (fd >= 0) { made++; sc1(SYS_close, fd); }
      }
      results[i] = made; rline(i, made);
    } else if (pfx(op, "raise:")) { i64 r = sc2(SYS_kill, sc0(SYS_getpid), pint(field(op, 0), 0)); rline(i, r);
    } else if (pfx(op, "fault:")) {
      const char *k = field(op, 0); rline(i, 0);
      if (pfx(k, "segv")) { *(volatile int *)8 = 1; }
      else if (pfx(k, "fpe")) { __asm__ volatile("xor %%ecx,%%ecx\n\tmov $1,%%eax\n\tcltd\n\tidiv %%ecx" ::: "eax", "ecx", "edx", "cc"); }
      else if (pfx(k, "ill")) { __asm__ volatile("ud2"); }
      else if (pfx(k, "trap")) { __asm__ volatile("int3"); }
      else if (pfx(k, "bus")) {
        /* access beyond the end of a mapped file: SIGBUS */
        i64 fd = sc3(SYS_open, "/proc/self/exe", 0, 0); (void)fd;
        i64 m = sc2(319 /*memfd_create*/, "b", 0); i64 p = sc6(SYS_mmap, 0, 2 * PAGE, 3, 1 /*MAP_SHARED*/, m, 0); *(volatile char *)(p + 10) = 1;
      }
    } else if (seq(op, "sigign")) { ignore_all(); rline(i, 0);
    } else if (seq(op, "pause")) { for (;;) sc0(SYS_pause);
    } else if (pfx(op, "exit:")) { sc1(SYS_exit_group, pint(field(op, 0), 0));
    } else if (pfx(op, "texit:")) { sc1(SYS_exit, pint(field(op, 0), 0));
    } else if (pfx(op, "waitgo:")) { char c; i64 fd = parg(field(op, 0)); i64 r; do { r = sc3(SYS_read, fd, &c, 1); } while (r == -4); results[i] = r; rline(i, r);
    } else if (pfx(op, "report:")) {
      const char *k = field(op, 0);
      if (pfx(k, "fds")) report_fds(); else if (pfx(k, "ids")) report_ids(); else if (pfx(k, "caps")) report_caps();
      else if (pfx(k, "limits")) report_limits(); else if (pfx(k, "cwd")) report_cwd(); else if (pfx(k, "uts")) report_uts();
      else if (pfx(k, "mounts")) report_mounts(); else if (pfx(k, "ns")) report_ns();
      rline(i, 0);
    } else if (pfx(op, "walk:")) {
      static char path[4096]; const char *s = (const char *)parg(field(op, 0)); u64 l = slen(s); if (l > 3000) l = 3000; memcpy(path, s, l); path[l] = 0;
      struct out o; o.n = 0; walk(&o, path, l, (int)pint(field(op, 1), 0)); os(&o, "D end\n"); oflush(&o); rline(i, 0);
    } else if (pfx(op, "cat:")) {
      struct out o; o.n = 0; os(&o, "C "); oi(&o, i); oc(&o, ' '); cat_to(&o, (const char *)parg(field(op, 0)), 4000); oc(&o, '\n'); oflush(&o); rline(i, 0);
    } else {
      rline(i, -38);
    }
  }
  (void)flen;
}

static void cmain(u64 *sp) {
  int argc = (int)sp[0]; char **argv = (char **)(sp + 1);
  if (argc < 3) sc1(SYS_exit_group, 99);
  rfd = (int)pint(argv[2], 0);
  ops = argv + 3; nops = argc - 3; nstr = 0; strtab = 0;
  for (int i = 3; i < argc; i++) if (seq(argv[i], "--")) { nops = i - 3; strtab = argv + i + 1; nstr = argc - i - 1; break; }
  static i64 resbuf[4096]; results = resbuf; if (nops > 4096) nops = 4096;
  run(0, nops);
  sc1(SYS_exit_group, 0);
}

__attribute__((naked, used)) void _start(void) {
  __asm__ volatile(
      "xor %ebp,%ebp\n\t"
      "mov %rsp,%rdi\n\t"
      "and $-16,%rsp\n\t"
      "call cmain_tramp\n\t"
      "hlt\n\t");
}
__attribute__((used)) void cmain_tramp(u64 *sp) { cmain(sp); }

/* vseccomp: asks the running kernel what it does with a raw seccomp cBPF program for given syscall numbers.
 * usage: vseccomp <hex of struct sock_filter[]> <nr> [<nr> ...]
 * For each nr a child drops to uid/gid 65534, sets no_new_privs, loads the program, issues the raw syscall with
 * all six arguments -1 and stores the return value into a shared page by a plain memory write (no syscall is needed
 * after the sample, so it works for policies that forbid write and exit_group too).
 * Output, one line per nr:  "<nr> ret <value>" | "<nr> sigsys" | "<nr> signal <n>" | "<nr> exit <code>" |
 *                           "<nr> rejected <errno>" | "<nr> timeout"
 */
#define _GNU_SOURCE
#include <errno.h>
#include <grp.h>
#include <linux/filter.h>
#include <linux/seccomp.h>
#include <signal.h>
#include <stdio.h>
#include <stdlib.h>
#include <string.h>
#include <sys/mman.h>
#include <sys/prctl.h>
#include <sys/syscall.h>
#include <sys/wait.h>
#include <unistd.h>

struct shared { volatile long state; volatile long ret; volatile long err; };

static int hexval(int c) {
  if (c >= '0' && c <= '9') return c - '0';
  if (c >= 'a' && c <= 'f') return c - 'a' + 10;
  if (c >= 'A' && c <= 'F') return c - 'A' + 10;
  return -1;
}

static long raw6(long nr, long a, long b, long c, long d, long e, long f) {
  long ret;
  register long r10 __asm__("r10") = d;
  register long r8 __asm__("r8") = e;
  register long r9 __asm__("r9") = f;
  __asm__ volatile("syscall" : "=a"(ret) : "a"(nr), "D"(a), "S"(b), "d"(c), "r"(r10), "r"(r8), "r"(r9) : "rcx", "r11", "memory");
  return ret;
}

int main(int argc, char **argv) {
  if (argc < 3) { fprintf(stderr, "usage\n"); return 2; }
  size_t hl = strlen(argv[1]);
  if (hl % 16 != 0) { fprintf(stderr, "bad hex length\n"); return 2; }
  size_t n = hl / 16;
  struct sock_filter *f = calloc(n ? n : 1, sizeof *f);
  unsigned char *raw = (unsigned char *)f;
  for (size_t i = 0; i < hl / 2; i++) {
    int h = hexval(argv[1][2 * i]), l = hexval(argv[1][2 * i + 1]);
    if (h < 0 || l < 0) { fprintf(stderr, "bad hex\n"); return 2; }
    raw[i] = (unsigned char)(h << 4 | l);
  }
  struct sock_fprog prog = { .len = (unsigned short)n, .filter = f };
  struct shared *sh = mmap(NULL, 4096, PROT_READ | PROT_WRITE, MAP_SHARED | MAP_ANONYMOUS, -1, 0);
  if (sh == MAP_FAILED) { perror("mmap"); return 2; }
  for (int i = 2; i < argc; i++) {
    unsigned long nr = strtoul(argv[i], NULL, 0);
    sh->state = 0; sh->ret = 0; sh->err = 0;
    pid_t pid = fork();
    if (pid < 0) { perror("fork"); return 2; }
    if (pid == 0) {
      alarm(3);
      if (setgroups(0, NULL) || setgid(65534) || setuid(65534)) { sh->state = 9; sh->err = errno; _exit(3); }
      if (prctl(PR_SET_NO_NEW_PRIVS, 1, 0, 0, 0)) { sh->state = 9; sh->err = errno; _exit(3); }
      if (syscall(SYS_seccomp, SECCOMP_SET_MODE_FILTER, 0, &prog)) { sh->state = 8; sh->err = errno; _exit(4); }
      sh->state = 1;
      long r = raw6((long)nr, -1, -1, -1, -1, -1, -1);
      sh->ret = r;
      sh->state = 2;
      raw6(SYS_exit_group, 0, 0, 0, 0, 0, 0);
      raw6(SYS_exit, 0, 0, 0, 0, 0, 0);
      __builtin_trap();
    }
    int st = 0;
    if (waitpid(pid, &st, 0) < 0) { perror("waitpid"); return 2; }
    if (sh->state == 9) { fprintf(stderr, "child setup failed errno %ld\n", sh->err); return 2; }
    if (sh->state == 8) printf("%lu rejected %ld\n", nr, sh->err);
    else if (sh->state == 2) printf("%lu ret %ld\n", nr, sh->ret);
    else if (WIFSIGNALED(st) && WTERMSIG(st) == SIGSYS) printf("%lu sigsys\n", nr);
    else if (WIFSIGNALED(st) && WTERMSIG(st) == SIGALRM) printf("%lu timeout\n", nr);
    else if (WIFSIGNALED(st)) printf("%lu signal %d\n", nr, WTERMSIG(st));
    else printf("%lu exit %d\n", nr, WEXITSTATUS(st));
    fflush(stdout);
  }
  return 0;
}

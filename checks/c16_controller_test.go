//go:build verif

package checks

// C16 — if the controlling process dies, the sandbox dies with it.
// A helper process (role "controller") performs an operation; the harness SIGKILLs it at a generated crash point
// (a named point it announces and blocks at, or a random delay) and then watches the host.

import (
	"bufio"
	"context"
	"encoding/json"
	"fmt"
	"os"
	"os/exec"
	"strconv"
	"strings"
	"syscall"
	"testing"
	"time"

	"github.com/criyle/go-sandbox/container"
	"github.com/criyle/go-sandbox/pkg/forkexec"
	"github.com/criyle/go-sandbox/pkg/seccomp/libseccomp"
	"github.com/criyle/go-sandbox/ptracer"
	"github.com/criyle/go-sandbox/runner"
	"pgregory.net/rapid"

	"verif/internal/probe"
	"verif/internal/vh"
)

type c16Case struct {
	Op      string // idle execve open reset ptrace
	Point   string // named point at which the controller announces itself and blocks ("" = random delay)
	DelayUs int
	Shape   int // program shape selector
	// ptrace-direct: Shape selects seccomp / credential change; Prog selects the program (0 = single sleeper, 1..3 = the
	// forked trees of c16Program: their members are followed by the tracer or not, but none may outlive it)
	Prog int `json:",omitempty"`
	// descriptor layout of the controller: 0 = exec descriptor and /dev/null low, everything else right above them;
	// 1 = exec descriptor and /dev/null high with free numbers below them (the launch's internal descriptors then land
	// low, between the listed ones, and nothing the launcher's child moves around touches them)
	Layout int    `json:",omitempty"`
	Tag    string `json:"tag,omitempty"`
}

var c16Points = map[string][]string{
	"execve":        {"execve:sent", "execve:sync-reply", "execve:synced", "execve:ok-sent", "execve:wait", "syncfunc", "running"},
	"ptrace":        {"syncfunc", "check0", "check3", "running"},
	"ptrace-direct": {"syncfunc", "syncfunc-stopchild", "running"},
	"unshare":       {"syncfunc"}, // only the launch hand-shake (shared with the tracer's and the container's launches); a *running* namespace-runner program is outside the statement
	"idle":          {"idle"},
	"open":          {"before-open"},
	"reset":         {"before-reset"},
}

func c16Program(shape int) *probe.Script {
	var s probe.Script
	at := uint64(0xffffffffffffff9c)
	stat := func() { s.Sys(sysNr["newfstatat"], at, s.Str("/proc/self/stat"), "!buf", 0) }
	switch shape % 4 {
	case 0:
		stat()
	case 1:
		s.Add("sigign")
		s.Add("fork{")
		s.Add("sigign")
		s.Add("sleep:600000")
		s.Add("}")
		stat()
	case 2:
		s.Add("fork{")
		s.Add("sigign")
		s.Add("fork{")
		s.Add("sigign")
		s.Add("spin:600000")
		s.Add("}")
		s.Add("sleep:600000")
		s.Add("}")
		s.Add("fork{")
		s.Add("sleep:600000")
		s.Add("}")
		stat()
	case 3:
		s.Add("sigign")
		s.Add("thread{")
		s.Add("sleep:600000")
		s.Add("}")
		s.Add("fork{")
		s.Add("sigign")
		s.Add("sleep:600000")
		s.Add("}")
		stat()
	}
	for i := 0; i < 5; i++ {
		stat()
	}
	s.Add("sleep:600000")
	s.Add("exit:0")
	return &s
}

func init() { roles["controller"] = c16Controller }

func c16Controller() {
	var c c16Case
	if err := json.Unmarshal([]byte(os.Getenv("VERIF_C16")), &c); err != nil {
		os.Exit(3)
	}
	ann := os.NewFile(3, "announce")
	say := func(f string, a ...any) { fmt.Fprintf(ann, f+"\n", a...) }
	block := func(point string) {
		if c.Point == point {
			say("at %s", point)
			select {}
		}
	}
	// the child is held (SIGSTOP) at the launch hand-shake while the controller goes on: the controller is then killed
	// after the hand-shake but before its tracer has seen the child's first stop
	stopChild := func(pid int) {
		if c.Point == "syncfunc-stopchild" {
			syscall.Kill(pid, syscall.SIGSTOP)
			go func() {
				time.Sleep(3 * time.Millisecond)
				say("at syncfunc-stopchild")
			}()
		}
	}
	s := c16Program(c.Shape)
	var pads []*os.File
	if c.Layout == 1 {
		for i := 0; i < 10; i++ {
			if f, err := os.Open("/dev/null"); err == nil {
				pads = append(pads, f)
			}
		}
	}
	efd, err := probeExecFd()
	if err != nil {
		say("infra %v", err)
		return
	}
	dn := devNullFile()
	for _, f := range pads {
		f.Close()
	}
	switch c.Op {
	case "unshare":
		say("started")
		runUnshare(sandboxOpts{Script: s, Tag: c.Tag, Timeout: time.Hour, SyncFunc: func(pid int) error {
			say("pid %d", pid)
			block("syncfunc")
			return nil
		}})
		say("done")
	case "ptrace":
		allow := append([]string{"fork", "clone", "kill", "rt_sigprocmask", "execve", "execveat"}, probeBaseAllow...)
		filter, err := buildFilter(allow, []string{"newfstatat"}, libseccomp.ActionKill)
		if err != nil {
			say("infra %v", err)
			return
		}
		h := &recHandler{}
		n := 0
		h.Decide = func(hRecord) ptracer.TraceAction {
			block(fmt.Sprintf("check%d", n))
			n++
			if n == 6 {
				say("running")
				block("running")
			}
			return ptracer.TraceAllow
		}
		say("started")
		runTraced(tracedOpts{Script: s, Filter: filter, Handler: h, Tag: c.Tag, Timeout: time.Hour, SyncFunc: func(pid int) error {
			say("pid %d", pid)
			stopChild(pid)
			block("syncfunc")
			return nil
		}})
		say("done")
	case "ptrace-direct":
		// forkexec.Runner under ptracer.Tracer without the ptrace runner in between: Shape selects seccomp yes/no and a
		// credential change yes/no (the program is a single sleeper: the tracer's no-seccomp mode does not follow forks)
		var ps probe.Script
		ps.Add("sleep:600000")
		ps.Add("exit:0")
		if c.Prog > 0 {
			ps = *c16Program(c.Prog)
		}
		if c.Point == "running" {
			go func() {
				time.Sleep(40 * time.Millisecond) // the tree exists by then
				say("running")
				say("at running")
			}()
		}
		r := &forkexec.Runner{Args: ps.Argv(c.Tag, 3), Env: []string{"A=1"}, ExecFile: efd, Files: []uintptr{dn.Fd(), dn.Fd(), dn.Fd()}, Ptrace: true,
			SyncFunc: func(pid int) error { say("pid %d", pid); stopChild(pid); block("syncfunc"); return nil }}
		if c.Shape&1 != 0 {
			f, err := buildFilter(nil, nil, libseccomp.ActionAllow)
			if err != nil {
				say("infra %v", err)
				return
			}
			r.Seccomp = f.SockFprog()
		}
		if c.Shape&2 != 0 {
			r.Credential = &syscall.Credential{Uid: 65534, Gid: 65534, NoSetGroups: true}
		}
		tr := ptracer.Tracer{Handler: c16NopHandler{}, Runner: r, Limit: runner.Limit{TimeLimit: time.Hour, MemoryLimit: 1 << 30}}
		say("started")
		tr.Trace(context.Background())
		say("done")
	default:
		env, _, err := buildContainer(nil)
		if err != nil {
			say("infra build: %v", err)
			return
		}
		say("init %d", container.VerifInitPid(env))
		container.VerifHook.Point = func(name string) {
			if name == "execve:wait" {
				// give the program a moment to build its tree
				if c.Point == "running" {
					time.Sleep(30 * time.Millisecond)
					say("running")
					block("running")
				}
			}
			block(name)
		}
		say("started")
		switch c.Op {
		case "idle":
			say("running")
			block("idle")
			time.Sleep(time.Hour)
		case "execve":
			argv := s.Argv(c.Tag, 3)
			argv[0] = "/vprobe"
			env.Execve(context.Background(), container.ExecveParam{Args: argv, Env: []string{"A=1"}, ExecFile: efd, Files: []uintptr{dn.Fd(), dn.Fd(), dn.Fd()},
				SyncFunc: func(pid int) error { say("pid %d", pid); block("syncfunc"); return nil }})
		case "open":
			// first leave a program tree's worth of state: run a short program, then open many files
			block("before-open")
			for {
				var cmds []container.OpenCmd
				for i := 0; i < 200; i++ {
					cmds = append(cmds, container.OpenCmd{Path: fmt.Sprintf("/w/f%d", i), Flag: os.O_RDWR | os.O_CREATE, Perm: 0o644})
				}
				res, _ := env.Open(cmds)
				closeAll(res)
			}
		case "reset":
			block("before-reset")
			for {
				env.Reset()
			}
		}
		say("done")
	}
	time.Sleep(time.Hour)
}

type c16NopHandler struct{}

func (c16NopHandler) Handle(*ptracer.Context) ptracer.TraceAction { return ptracer.TraceAllow }
func (c16NopHandler) Debug(...interface{})                        {}

func c16Run(c c16Case, rec *vh.Recorder) error {
	self, err := os.Executable()
	if err != nil {
		return vh.Infraf("%v", err)
	}
	c.Tag = newTag()
	cj, _ := json.Marshal(c)
	pr, pw, err := os.Pipe()
	if err != nil {
		return vh.Infraf("%v", err)
	}
	cmd := exec.Command(self)
	cmd.Env = append(os.Environ(), "VERIF_ROLE=controller", "VERIF_C16="+string(cj))
	cmd.ExtraFiles = []*os.File{pw}
	cmd.Stderr = nil
	if err := cmd.Start(); err != nil {
		pr.Close()
		pw.Close()
		return vh.Infraf("controller: %v", err)
	}
	pw.Close()
	defer pr.Close()
	lines := make(chan string, 64)
	go func() {
		sc := bufio.NewScanner(pr)
		for sc.Scan() {
			lines <- sc.Text()
		}
		close(lines)
	}()
	initPid, progPid := 0, 0
	desc := fmt.Sprintf("%+v", c)
	reached := false
	started := false
	deadline := time.After(15 * time.Second)
	var killAt <-chan time.Time
wait:
	for {
		select {
		case ln, ok := <-lines:
			if !ok {
				break wait
			}
			f := strings.Fields(ln)
			if len(f) == 0 {
				continue
			}
			switch f[0] {
			case "infra":
				cmd.Process.Kill()
				cmd.Wait()
				killTagged(c.Tag)
				return vh.Infraf("controller: %s", ln)
			case "init":
				initPid, _ = strconv.Atoi(f[1])
			case "pid":
				progPid, _ = strconv.Atoi(f[1])
			case "started":
				started = true
				if c.Point == "" {
					killAt = time.After(time.Duration(c.DelayUs) * time.Microsecond)
				}
			case "at":
				reached = true
				break wait
			case "done":
				break wait
			}
		case <-killAt:
			reached = true
			break wait
		case <-deadline:
			break wait
		}
	}
	_ = started
	aliveBefore := len(liveTagged(c.Tag)) > 0
	desc0 := descendantsOf(cmd.Process.Pid)
	// strike
	cmd.Process.Signal(syscall.SIGKILL)
	cmd.Wait()
	killedAt := time.Now()
	if !reached {
		killTagged(c.Tag)
		if initPid > 0 {
			syscall.Kill(initPid, syscall.SIGKILL)
		}
		rec.Class("crash-point-not-reached", 1)
		return nil
	}
	// watch: within 5 s the init and every tagged process must be gone (zombies awaiting the VM's init do not count)
	for {
		initAlive := false
		if initPid > 0 {
			if b, err := os.ReadFile(fmt.Sprintf("/proc/%d/stat", initPid)); err == nil {
				if i := strings.LastIndex(string(b), ") "); i >= 0 && i+2 < len(b) && b[i+2] != 'Z' {
					initAlive = true
				}
			}
		}
		live := liveTagged(c.Tag)
		var left []string
		for pid, start := range desc0 {
			if st, state := procStart(pid); st == start && state != "Z" && state != "" {
				left = append(left, fmt.Sprintf("%d(%s)", pid, state))
			}
		}
		if !initAlive && len(live) == 0 && len(left) == 0 {
			break
		}
		if time.Since(killedAt) > 5*time.Second && !initAlive && len(live) == 0 {
			for pid := range desc0 {
				syscall.Kill(pid, syscall.SIGKILL)
			}
			return vh.Violf("C16:descendant-survives-controller", "5 s after the controller was SIGKILLed at %q these descendants of it are still there: %v (a launcher child stuck before exec counts: it is a leftover of the sandbox); %s", c.Point, left, desc)
		}
		if time.Since(killedAt) > 5*time.Second {
			infos := taggedInfo(c.Tag)
			killTagged(c.Tag)
			if initPid > 0 {
				syscall.Kill(initPid, syscall.SIGKILL)
			}
			key := "C16:program-survives-controller"
			if initAlive {
				key = "C16:init-survives-controller"
			}
			return vh.Violf(key, "5 s after the controller was SIGKILLed at %q: container init alive=%v (pid %d), tagged processes %+v (program pid %d); %s", c.Point, initAlive, initPid, infos, progPid, desc)
		}
		time.Sleep(5 * time.Millisecond)
	}
	cl := []string{"op=" + c.Op, "point=" + c.Point, fmt.Sprintf("shape=%d", c.Shape%4), fmt.Sprintf("controller-descriptor-layout=%d", c.Layout)}
	if c.Op == "ptrace-direct" {
		cl = append(cl, fmt.Sprintf("direct(seccomp=%v,cred=%v,program=%d)", c.Shape&1 != 0, c.Shape&2 != 0, c.Prog%4))
	}
	rec.Case(c, aliveBefore, cl...)
	if aliveBefore && rec.WantSample() {
		rec.Sample(c)
	}
	return nil
}

const c16Rule = "case = operation of a helper controller process in {container idle, Execve, Open loop, Reset loop, ptrace run, forkexec.Runner driven by ptracer.Tracer directly with/without seccomp and with/without a credential change, single sleeper or forked tree} x program shape (single process; signal-ignoring forked tree; spinning grandchild; thread + forked child) x crash point in {each named host point of Execve (sent, sync-reply, synced, ok-sent, wait), inside SyncFunc, just after the launch hand-shake with the child held by SIGSTOP (the tracer has not seen its first stop yet), inside the first / fourth Handler callback (tracee stopped in a syscall), while the program runs, idle, before Open / Reset, or a random delay of 0..20 ms}; the harness SIGKILLs the controller there; " +
	"oracle: within 5 s the container init (announced by the controller) and every process carrying the run's tag are gone from the host; non-trivial = a tagged program process was alive when the controller was killed; the enumeration test crosses every point with every shape"

func TestC16Enumerate(t *testing.T) {
	rec := vh.NewRecorder(t, "C16", "fault_enumeration", c16Rule)
	if vh.ReplayIfRequested(t, rec, func(c c16Case) error { return c16Run(c, rec) }) {
		return
	}
	defer rec.Write()
	n := 0
	for _, op := range []string{"execve", "ptrace", "ptrace-direct", "unshare", "idle", "open", "reset"} {
		for _, pt := range c16Points[op] {
			shapes := []int{0, 1, 2, 3}
			if op != "execve" && op != "ptrace" && op != "unshare" && op != "ptrace-direct" {
				shapes = []int{0}
			}
			if !vh.Thorough() && len(shapes) > 2 {
				shapes = []int{1, 2 + n%2}
			}
			for _, sh := range shapes {
				c := c16Case{Op: op, Point: pt, Shape: sh, Layout: (n + sh) % 2}
				if op == "ptrace-direct" && pt == "running" {
					c.Prog = 1 + (n+sh)%3
				}
				if err := c16Run(c, rec); err != nil {
					vh.Report(t, rec, c, err)
					if _, infra := err.(vh.Infra); infra {
						return
					}
				}
				n++
			}
		}
	}
	rec.SetExhaustive(true)
	rec.Extra("crash_points_x_shapes", n)
}

func TestC16Random(t *testing.T) {
	rec := vh.NewRecorder(t, "C16", "fault_enumeration", c16Rule)
	vh.Check(t, rec, func(rt *rapid.T) c16Case {
		c := c16Case{Op: rapid.SampledFrom([]string{"execve", "execve", "ptrace", "ptrace", "ptrace-direct", "ptrace-direct", "unshare", "open", "reset", "idle"}).Draw(rt, "op"), Shape: rapid.IntRange(0, 3).Draw(rt, "shape"),
			Layout: rapid.IntRange(0, 1).Draw(rt, "layout")}
		if c.Op == "unshare" {
			c.Point = "syncfunc" // only the launch hand-shake of the namespace runner is inside the statement
		}
		c.DelayUs = rapid.OneOf(rapid.IntRange(0, 2000), rapid.IntRange(0, 20000)).Draw(rt, "delay")
		if c.Op == "ptrace-direct" {
			c.Prog = rapid.IntRange(0, 3).Draw(rt, "prog")
			if c.Prog == 0 {
				c.DelayUs %= 3000 // the launch window
			} else {
				c.DelayUs = 5000 + c.DelayUs // once the tree exists
			}
		}
		return c
	}, func(c c16Case) error { return c16Run(c, rec) })
}

// procStart returns the start time (field 22 of /proc/pid/stat) and state of a process ("" if gone).
func procStart(pid int) (string, string) {
	b, err := os.ReadFile(fmt.Sprintf("/proc/%d/stat", pid))
	if err != nil {
		return "", ""
	}
	i := strings.LastIndex(string(b), ") ")
	if i < 0 {
		return "", ""
	}
	f := strings.Fields(string(b)[i+2:])
	if len(f) < 20 {
		return "", ""
	}
	return f[19], f[0]
}

// descendantsOf returns pid -> start time of every live descendant of root (by walking PPid links).
func descendantsOf(root int) map[int]string {
	parent := map[int]int{}
	ents, _ := os.ReadDir("/proc")
	for _, e := range ents {
		pid, err := strconv.Atoi(e.Name())
		if err != nil {
			continue
		}
		b, err := os.ReadFile("/proc/" + e.Name() + "/stat")
		if err != nil {
			continue
		}
		if i := strings.LastIndex(string(b), ") "); i >= 0 {
			f := strings.Fields(string(b)[i+2:])
			if len(f) > 1 {
				pp, _ := strconv.Atoi(f[1])
				parent[pid] = pp
			}
		}
	}
	out := map[int]string{}
	for pid := range parent {
		for p, n := pid, 0; p > 1 && n < 64; p, n = parent[p], n+1 {
			if parent[p] == root {
				st, _ := procStart(pid)
				out[pid] = st
				break
			}
		}
	}
	return out
}

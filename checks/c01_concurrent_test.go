package checks

// C01, concurrency part: "for every policy a caller can express" includes callers that build their filters at the same
// time (a judge server prepares one filter per submission on its worker goroutines). K goroutines each own one policy
// and build it repeatedly behind a common start barrier; every returned filter is judged against *its own* policy.
// Each caller keeps one Builder value (lists exactly sized or with spare capacity) for all its rounds, so a Build that
// disturbs the lists it was given is seen in the next filter built from them.

import (
	"fmt"
	"sync"
	"syscall"
	"testing"

	"github.com/criyle/go-sandbox/pkg/seccomp"
	"github.com/criyle/go-sandbox/pkg/seccomp/libseccomp"
	"pgregory.net/rapid"

	"verif/internal/bpfvm"
	"verif/internal/vh"
)

type c01ConcCase struct {
	Policies []c01Case
	Rounds   int
	SpareCap bool // the callers' lists have spare capacity (grown with append)
}

// c01Light judges a filter on the native architecture over every table number and 0..1023 (enough to tell any two
// different policies apart and to see a wrong default).
func c01Light(c c01Case, f seccomp.Filter) error {
	prog := []syscall.SockFilter(f)
	if len(prog) == 0 {
		return vh.Violf("C01:empty-filter", "empty filter; %s", c01Brief(c))
	}
	if err := bpfvm.Validate(prog); err != nil {
		return vh.Violf("C01:kernel-would-reject", "filter for %s: %v", c01Brief(c), err)
	}
	allow, trace := map[uint32]bool{}, map[uint32]bool{}
	for _, n := range c.Allow {
		allow[uint32(c01Num[n])] = true
	}
	for _, n := range c.Trace {
		trace[uint32(c01Num[n])] = true
	}
	def := c01Default(c.Default)
	check := func(nr, a uint32) error {
		d := bpfvm.Data{NR: nr, Arch: a}
		got, err := bpfvm.Run(prog, &d, nil)
		if err != nil {
			return vh.Violf("C01:bad-program", "%s: %v", c01Brief(c), err)
		}
		want, alt := c01Model(allow, trace, def, &d)
		if got != want && (alt == nil || !alt(got)) {
			return vh.Violf("C01:concurrent-build-other-policy", "nr=%#x arch=%#x: the filter returned to this caller gives %#x, its policy says %#x; %s", nr, a, got, want, c01Brief(c))
		}
		return nil
	}
	for nr := uint32(0); nr < 1024; nr++ {
		if err := check(nr, auditArchX8664); err != nil {
			return err
		}
	}
	for _, n := range c01Num {
		if n >= 1024 {
			if err := check(uint32(n), auditArchX8664); err != nil {
				return err
			}
		}
	}
	for _, nr := range []uint32{0, 1, 59, x32Bit, x32Bit | 1, 0xffffffff} {
		if err := check(nr, auditArchI386); err != nil {
			return err
		}
	}
	return nil
}

func c01RunConcurrent(c c01ConcCase, rec *vh.Recorder) error {
	c01Table()
	k := len(c.Policies)
	errs := make([]error, k)
	builds := make([]int, k)
	start := make(chan struct{})
	var wg sync.WaitGroup
	for i := range c.Policies {
		wg.Add(1)
		go func(i int) {
			defer wg.Done()
			p := c.Policies[i]
			mk := func(l []string) []string {
				if !c.SpareCap {
					return append([]string(nil), l...)
				}
				out := make([]string, 0, 2*len(l)+len(p.Allow)+len(p.Trace)+8)
				return append(out, l...)
			}
			// one Builder value per caller, used for every round: whatever a Build does to the lists it was given shows in the
			// next filter built from them
			b := libseccomp.Builder{Allow: mk(p.Allow), Trace: mk(p.Trace), Default: libseccomp.Action(p.Default)}
			<-start
			for r := 0; r < c.Rounds; r++ {
				f, err := b.Build()
				builds[i]++
				if err != nil {
					errs[i] = vh.Violf("C01:build-error", "Build failed for an expressible policy (goroutine %d of %d, round %d): %v; %s", i, k, r, err, c01Brief(p))
					return
				}
				if err := c01Light(p, f); err != nil {
					if v, ok := err.(*vh.Violation); ok {
						v.Detail = fmt.Sprintf("goroutine %d of %d, build %d from the same Builder value (lists with spare capacity: %v): %s", i, k, r, c.SpareCap, v.Detail)
					}
					errs[i] = err
					return
				}
			}
		}(i)
	}
	close(start)
	wg.Wait()
	tot := 0
	for i := range errs {
		tot += builds[i]
	}
	rec.Evals(tot)
	distinct := map[string]bool{}
	for _, p := range c.Policies {
		distinct[fmt.Sprint(c01Key(p))] = true
	}
	rec.Case([]any{c.Policies, c.Rounds, c.SpareCap}, len(distinct) >= 2, fmt.Sprintf("concurrent-builders=%d", k), fmt.Sprintf("spare-capacity=%v", c.SpareCap))
	if rec.WantSample() && k <= 3 {
		small := true
		for _, p := range c.Policies {
			if len(p.Allow)+len(p.Trace) > 8 {
				small = false
			}
		}
		if small {
			rec.Sample(c)
		}
	}
	for _, e := range errs {
		if e != nil {
			return e
		}
	}
	return nil
}

func TestC01Concurrent(t *testing.T) {
	rec := vh.NewRecorder(t, "C01", "exploration",
		"concurrency part: 1..8 goroutines, each owning one generated policy (as in the policy part; caller lists exactly sized or with spare capacity), build it 10..60 times behind a start barrier; every returned filter is interpreted on the native arch over all table numbers + 0..1023 and judged against its own policy; each caller re-uses one Builder value; non-trivial = >=2 distinct policies built concurrently")
	rec.Assume("the interleaving of concurrent Build calls is the Go scheduler's (16 cores); repeated rounds sample it")
	vh.Check(t, rec, func(rt *rapid.T) c01ConcCase {
		k := rapid.IntRange(1, 8).Draw(rt, "builders")
		c := c01ConcCase{Rounds: rapid.IntRange(10, 60).Draw(rt, "rounds"), SpareCap: rapid.Bool().Draw(rt, "sparecap")}
		for i := 0; i < k; i++ {
			p := c01GenPolicy(rt)
			// keep most policies small so that many builds overlap, some large so that one build is long
			if rapid.IntRange(0, 3).Draw(rt, "trim") > 0 {
				if len(p.Allow) > 12 {
					p.Allow = p.Allow[:12]
				}
				if len(p.Trace) > 12 {
					p.Trace = p.Trace[:12]
				}
			}
			c.Policies = append(c.Policies, p)
		}
		return c
	}, func(c c01ConcCase) error { return c01RunConcurrent(c, rec) })
}

package checks

// C03 — handler verdicts are enforced: banned and killed syscalls never take effect, allowed ones run unmodified,
// for every process and thread of the program.

import (
	"fmt"
	"os"
	"path/filepath"
	"regexp"
	"sort"
	"strconv"
	"strings"
	"syscall"
	"testing"

	"github.com/criyle/go-sandbox/pkg/seccomp/libseccomp"
	"github.com/criyle/go-sandbox/ptracer"
	"github.com/criyle/go-sandbox/runner"
	"github.com/criyle/go-sandbox/runner/ptrace"
	"pgregory.net/rapid"

	"verif/internal/probe"
	"verif/internal/vh"
)

type c03Op struct {
	Kind string  // mkdir create unlink rename link stat readlink chmod symlink exec getpid getppid other fork vfork thread wait sleep
	K    int     // marker id (unique per traced op)
	Form int     // which syscall of the kind's family issues it (c03Forms); 0 is the *at form
	Name string  // syscall name for "other"
	Body []c03Op // fork / vfork / thread
}

type c03Case struct {
	Ops    []c03Op
	Decide []int          // per marker id: 0 allow, 1 ban, 2 kill
	Src    []int          // per marker id: decision for the *source* path of a rename (the destination uses Decide)
	Other  map[string]int // decision per out-of-list syscall name (only consulted when Default == "trace")
	// decisions per *occurrence* of one plain syscall issued several times in a row at the start of the main task (the
	// handler decides per call, not per syscall): name -> decision of the 1st, 2nd, ... call
	Seq     map[string][]int `json:",omitempty"`
	Default string           // kill | trace
	BanRet  int
	Exit    int
}

// c03Forms: every path syscall the tracer's dispatch knows on amd64, grouped by the effect the check observes.
var c03Forms = map[string][]string{
	"mkdir":    {"mkdirat", "mknodat"},
	"create":   {"openat", "open", "openat2"},
	"unlink":   {"unlinkat", "unlink"},
	"rename":   {"renameat", "rename", "renameat2"},
	"link":     {"linkat"},
	"stat":     {"newfstatat", "stat", "lstat", "statx", "access", "faccessat", "faccessat2"},
	"readlink": {"readlinkat", "readlink"},
	"chmod":    {"fchmodat", "chmod", "fchmodat2"},
	"symlink":  {"symlinkat"},
	"exec":     {"execve", "execveat"},
}

func c03Sys(op c03Op) string {
	f := c03Forms[op.Kind]
	if len(f) == 0 {
		return op.Kind
	}
	return f[op.Form%len(f)]
}

var c03SeqNames = []string{"getpgrp", "getsid", "getpgid"}

var c03Others = []string{"getuid", "getgid", "geteuid", "getegid", "sched_yield", "umask", "times", "alarm"}

func c03GenCase(rt *rapid.T) c03Case {
	c := c03Case{Other: map[string]int{}}
	c.Default = rapid.SampledFrom([]string{"kill", "trace", "trace"}).Draw(rt, "default")
	c.BanRet = rapid.SampledFrom([]int{int(syscall.EACCES), int(syscall.EPERM), int(syscall.ENOENT), int(syscall.EROFS)}).Draw(rt, "banret")
	c.Exit = rapid.SampledFrom([]int{0, 0, 3}).Draw(rt, "exit")
	for _, n := range c03Others {
		c.Other[n] = rapid.SampledFrom([]int{0, 0, 1, 1, 2}).Draw(rt, "other-"+n)
	}
	nextK := 0
	budget := rapid.IntRange(4, 20).Draw(rt, "budget")
	var gen func(depth int, n int, label string) []c03Op
	gen = func(depth int, n int, label string) []c03Op {
		var ops []c03Op
		spawned := false
		for i := 0; i < n && budget > 0; i++ {
			budget--
			k := rapid.IntRange(0, 19).Draw(rt, label+"kind")
			switch {
			case k < 9:
				kind := rapid.SampledFrom([]string{"mkdir", "create", "unlink", "rename", "stat", "readlink", "stat", "chmod", "symlink", "link", "exec"}).Draw(rt, label+"traced")
				ops = append(ops, c03Op{Kind: kind, K: nextK, Form: rapid.IntRange(0, len(c03Forms[kind])-1).Draw(rt, label+"form")})
				nextK++
			case k < 11:
				ops = append(ops, c03Op{Kind: rapid.SampledFrom([]string{"getpid", "getppid"}).Draw(rt, label+"untraced")})
			case k < 13:
				ops = append(ops, c03Op{Kind: "other", Name: rapid.SampledFrom(c03Others).Draw(rt, label+"other")})
			case k < 17 && depth < 3:
				kind := rapid.SampledFrom([]string{"fork", "fork", "vfork", "thread"}).Draw(rt, label+"spawn")
				body := gen(depth+1, rapid.IntRange(1, 4).Draw(rt, label+"bodyn"), label+"b")
				if len(body) == 0 {
					continue
				}
				// the first instruction of a new task is a traced call (late attachment would miss it)
				if body[0].Kind == "getpid" || body[0].Kind == "getppid" || body[0].Kind == "other" || body[0].Kind == "wait" || body[0].Kind == "sleep" {
					body = append([]c03Op{{Kind: "stat", K: nextK}}, body...)
					nextK++
				}
				ops = append(ops, c03Op{Kind: kind, Body: body})
				if kind != "thread" {
					spawned = true
				} else {
					ops = append(ops, c03Op{Kind: "sleep"})
				}
			case k < 18 && spawned:
				ops = append(ops, c03Op{Kind: "wait"})
				spawned = false
			default:
				ops = append(ops, c03Op{Kind: "stat", K: nextK, Form: rapid.IntRange(0, len(c03Forms["stat"])-1).Draw(rt, label+"sform")})
				nextK++
			}
		}
		if spawned {
			ops = append(ops, c03Op{Kind: "wait"})
		}
		return ops
	}
	c.Ops = gen(0, rapid.IntRange(3, 12).Draw(rt, "n"), "t")
	if c.Default == "kill" && rapid.IntRange(0, 2).Draw(rt, "threadkill") == 0 {
		// directed shape: a thread of the main process makes a call the filter itself kills while the main thread waits -
		// "for every process and thread": the run ends as Disallowed Syscall
		body := []c03Op{{Kind: "stat", K: nextK, Form: rapid.IntRange(0, len(c03Forms["stat"])-1).Draw(rt, "tkform")}, {Kind: "other", Name: rapid.SampledFrom(c03Others).Draw(rt, "tkother")}}
		nextK++
		c.Ops = append([]c03Op{{Kind: "thread", Body: body}, {Kind: "sleep"}}, c.Ops...)
	}
	if c.Default == "trace" && rapid.IntRange(0, 2).Draw(rt, "seq") == 0 {
		name := rapid.SampledFrom(c03SeqNames).Draw(rt, "seqname")
		var ds []int
		for k, n := 0, rapid.IntRange(2, 6).Draw(rt, "seqlen"); k < n; k++ {
			d := rapid.SampledFrom([]int{0, 0, 0, 1, 1}).Draw(rt, "seqd")
			if k == n-1 && rapid.IntRange(0, 3).Draw(rt, "seqkill") == 0 {
				d = 2
			}
			ds = append(ds, d)
		}
		c.Seq = map[string][]int{name: ds}
		var pre []c03Op
		for k := range ds {
			pre = append(pre, c03Op{Kind: "seq", Name: name, K: k})
		}
		c.Ops = append(pre, c.Ops...)
	}
	c.Src = make([]int, nextK)
	for i := range c.Src {
		c.Src[i] = rapid.SampledFrom([]int{0, 0, 1, 1, 2}).Draw(rt, "src")
	}
	c.Decide = make([]int, nextK)
	for i := range c.Decide {
		c.Decide[i] = rapid.SampledFrom([]int{0, 0, 0, 1, 1, 2}).Draw(rt, "decide")
		if i < 2 && c.Decide[i] == 2 && rapid.Bool().Draw(rt, "latekill") {
			c.Decide[i] = 0 // do not let most histories die on their first op
		}
	}
	return c
}

var c03MarkerRe = regexp.MustCompile(`/[mp](\d+)$`)

type c03Flat struct {
	op      c03Op
	idx     int   // script op index
	proc    int   // id of the enclosing process block (0 = main); threads share their process id
	thread  bool  // inside a thread body
	path    []int // indices (in flat list) of the enclosing spawn ops
	spawnOf int   // for fork/vfork/thread: the proc id of the body
	ctx     int   // sequential context: every fork/vfork/thread body is its own (threads run concurrently with their creator)
}

func c03Run(c c03Case, root string, rec *vh.Recorder) error {
	ents, _ := os.ReadDir(root)
	for _, e := range ents {
		os.RemoveAll(filepath.Join(root, e.Name()))
	}
	var s probe.Script
	var flat []c03Flat
	procCount := 1
	at := uint64(0xffffffffffffff9c)
	ctxCount := 1
	// killTyped: the op is decided kill by the handler, or is killed by the filter itself
	killTyped := func(op c03Op) bool {
		switch op.Kind {
		case "rename", "link":
			return c.Decide[op.K] == 2 || (op.K < len(c.Src) && c.Src[op.K] == 2)
		case "mkdir", "create", "unlink", "stat", "readlink", "chmod", "symlink", "exec":
			return c.Decide[op.K] == 2
		case "other":
			return c.Default == "kill" || c.Other[op.Name] == 2
		case "seq":
			return c.Default == "kill" || c.Seq[op.Name][op.K] == 2
		}
		return false
	}
	threadKillAt := -1 // flat index of a kill-type op in a thread started from main's straight line, while main waits for it
	var emit func(ops []c03Op, proc int, thread bool, path []int, ctx int) error
	emit = func(ops []c03Op, proc int, thread bool, path []int, ctx int) error {
		longSleep := false
		for _, op := range ops {
			f := c03Flat{op: op, proc: proc, thread: thread, path: append([]int{}, path...), ctx: ctx}
			m := fmt.Sprintf("m%d", op.K)
			p := fmt.Sprintf("p%d", op.K)
			switch op.Kind {
			case "mkdir":
				if c03Sys(op) == "mknodat" {
					f.idx = s.Sys(sysNr["mknodat"], at, s.Str(m), syscall.S_IFREG|0o644, 0)
				} else {
					f.idx = s.Sys(sysNr["mkdirat"], at, s.Str(m), 0o755)
				}
			case "create":
				switch c03Sys(op) {
				case "open":
					f.idx = s.Sys(sysNr["open"], s.Str(m), syscall.O_CREAT|syscall.O_WRONLY, 0o644)
				case "openat2":
					f.idx = s.Sys(sysNr["openat2"], at, s.Str(m), fmt.Sprintf("!how=%d,%d,%d", syscall.O_CREAT|syscall.O_WRONLY, 0o644, 0), 24)
				default:
					f.idx = s.Sys(sysNr["openat"], at, s.Str(m), syscall.O_CREAT|syscall.O_WRONLY, 0o644)
				}
			case "unlink":
				if err := os.WriteFile(filepath.Join(root, p), nil, 0o644); err != nil {
					return vh.Infraf("premake: %v", err)
				}
				if c03Sys(op) == "unlink" {
					f.idx = s.Sys(sysNr["unlink"], s.Str(p))
				} else {
					f.idx = s.Sys(sysNr["unlinkat"], at, s.Str(p), 0)
				}
			case "rename", "link":
				if err := os.WriteFile(filepath.Join(root, p), nil, 0o644); err != nil {
					return vh.Infraf("premake: %v", err)
				}
				switch c03Sys(op) {
				case "rename":
					f.idx = s.Sys(sysNr["rename"], s.Str(p), s.Str(m))
				case "renameat2":
					f.idx = s.Sys(sysNr["renameat2"], at, s.Str(p), at, s.Str(m), 0)
				case "linkat":
					f.idx = s.Sys(sysNr["linkat"], at, s.Str(p), at, s.Str(m), 0)
				default:
					f.idx = s.Sys(sysNr["renameat"], at, s.Str(p), at, s.Str(m))
				}
			case "stat":
				if op.K%2 == 0 {
					if err := os.WriteFile(filepath.Join(root, p), nil, 0o644); err != nil {
						return vh.Infraf("premake: %v", err)
					}
				}
				switch c03Sys(op) {
				case "stat":
					f.idx = s.Sys(sysNr["stat"], s.Str(p), "!buf")
				case "lstat":
					f.idx = s.Sys(sysNr["lstat"], s.Str(p), "!buf")
				case "statx":
					f.idx = s.Sys(sysNr["statx"], at, s.Str(p), 0, 0x7ff, "!buf")
				case "access":
					f.idx = s.Sys(sysNr["access"], s.Str(p), 0)
				case "faccessat":
					f.idx = s.Sys(sysNr["faccessat"], at, s.Str(p), 0)
				case "faccessat2":
					f.idx = s.Sys(sysNr["faccessat2"], at, s.Str(p), 0, 0)
				default:
					f.idx = s.Sys(sysNr["newfstatat"], at, s.Str(p), "!buf", 0)
				}
			case "readlink":
				if err := os.Symlink(m, filepath.Join(root, p)); err != nil { // dangling; the policy is shown .../m<k>
					return vh.Infraf("premake: %v", err)
				}
				if c03Sys(op) == "readlink" {
					f.idx = s.Sys(sysNr["readlink"], s.Str(p), "!buf", 100)
				} else {
					f.idx = s.Sys(sysNr["readlinkat"], at, s.Str(p), "!buf", 100)
				}
			case "chmod":
				if err := os.WriteFile(filepath.Join(root, p), nil, 0o644); err != nil {
					return vh.Infraf("premake: %v", err)
				}
				if err := os.Chmod(filepath.Join(root, p), 0o644); err != nil {
					return vh.Infraf("premake: %v", err)
				}
				switch c03Sys(op) {
				case "chmod":
					f.idx = s.Sys(sysNr["chmod"], s.Str(p), 0o600)
				case "fchmodat2":
					f.idx = s.Sys(sysNr["fchmodat2"], at, s.Str(p), 0o600, 0)
				default:
					f.idx = s.Sys(sysNr["fchmodat"], at, s.Str(p), 0o600)
				}
			case "symlink":
				f.idx = s.Sys(sysNr["symlinkat"], s.Str("nowhere"), at, s.Str(m))
			case "exec":
				// the target does not exist: an allowed call returns ENOENT and the program goes on
				if c03Sys(op) == "execveat" {
					f.idx = s.Sys(sysNr["execveat"], at, s.Str(p), 0, 0, 0)
				} else {
					f.idx = s.Sys(sysNr["execve"], s.Str(p), 0, 0)
				}
			case "getpid":
				f.idx = s.Sys(sysNr["getpid"])
			case "getppid":
				f.idx = s.Sys(sysNr["getppid"])
			case "other":
				if op.Name == "umask" {
					f.idx = s.Sys(sysNr["umask"], 0o22)
				} else if op.Name == "alarm" {
					f.idx = s.Sys(sysNr["alarm"], 0)
				} else if op.Name == "times" {
					f.idx = s.Sys(sysNr["times"], 0)
				} else {
					f.idx = s.Sys(sysNr[op.Name])
				}
			case "seq":
				if op.Name == "getpgrp" {
					f.idx = s.Sys(sysNr[op.Name])
				} else {
					f.idx = s.Sys(sysNr[op.Name], 0)
				}
			case "wait":
				f.idx = s.Add("wait")
			case "sleep":
				if longSleep {
					// main stays around until its thread has made the call that must end the whole run
					f.idx = s.Add("sleep:3000")
					longSleep = false
				} else {
					f.idx = s.Add("sleep:15")
				}
			case "fork", "vfork", "thread":
				f.idx = s.Add(op.Kind + "{")
				bp := proc
				if op.Kind != "thread" {
					bp = procCount
					procCount++
				}
				f.spawnOf = bp
				me := len(flat)
				flat = append(flat, f)
				bctx := ctxCount
				ctxCount++
				if err := emit(op.Body, bp, thread || op.Kind == "thread", append(path, me), bctx); err != nil {
					return err
				}
				s.Add("}")
				if op.Kind == "thread" && proc == 0 && !thread && len(path) == 0 && threadKillAt < 0 {
					for bi, b := range op.Body {
						if b.Kind == "fork" || b.Kind == "vfork" || b.Kind == "thread" || b.Kind == "wait" {
							break // only the straight beginning of the thread body is certain to be reached
						}
						if killTyped(b) {
							longSleep = true
							threadKillAt = me + 1 + bi
							break
						}
					}
				}
				continue
			}
			flat = append(flat, f)
		}
		return nil
	}
	if err := emit(c.Ops, 0, false, nil, 0); err != nil {
		return err
	}
	s.Add(fmt.Sprintf("exit:%d", c.Exit))

	traced := []string{"execve", "execveat"}
	for _, forms := range c03Forms {
		for _, n := range forms {
			if n != "execve" && n != "execveat" {
				traced = append(traced, n)
			}
		}
	}
	sort.Strings(traced)
	allow := append([]string{"fork", "vfork", "clone", "rt_sigprocmask"}, probeBaseAllow...)
	def := libseccomp.ActionKill
	if c.Default == "trace" {
		def = libseccomp.ActionTrace
	}
	filter, err := buildFilter(allow, traced, def)
	if err != nil {
		return vh.Infraf("filter: %v", err)
	}
	ptrace.BanRet = syscall.Errno(c.BanRet)
	defer func() { ptrace.BanRet = syscall.EACCES }()

	renameK := map[int]bool{}
	for _, f := range flat {
		if f.op.Kind == "rename" || f.op.Kind == "link" {
			renameK[f.op.K] = true
		}
	}
	h := &recHandler{}
	seqSeen := map[string]int{}
	h.Decide = func(r hRecord) ptracer.TraceAction {
		d := 0
		if seq, ok := c.Seq[r.Arg]; ok && r.Class == "syscall" {
			i := seqSeen[r.Arg]
			seqSeen[r.Arg]++
			if i >= len(seq) {
				i = len(seq) - 1
			}
			d = seq[i]
		} else if r.Class == "syscall" {
			d = c.Other[r.Arg]
		} else if m := c03MarkerRe.FindStringSubmatch(r.Arg); m != nil {
			k, _ := strconv.Atoi(m[1])
			if k < len(c.Decide) {
				d = c.Decide[k]
				if renameK[k] && strings.HasSuffix(r.Arg, fmt.Sprintf("/p%d", k)) && k < len(c.Src) {
					d = c.Src[k]
				}
			}
		}
		return []ptracer.TraceAction{ptracer.TraceAllow, ptracer.TraceBan, ptracer.TraceKill}[d]
	}
	mainPid := 0
	tr, err := runTraced(tracedOpts{Script: &s, Filter: filter, Handler: h, WorkDir: root, SyncFunc: func(pid int) error { mainPid = pid; return nil }})
	if err != nil {
		return err
	}
	if tr.Hung {
		live := liveTagged(tr.Tag)
		killTagged(tr.Tag)
		return vh.Violf("C03:hung", "run did not return in 20s; live tagged processes %v", live)
	}
	res, rep := tr.Result, tr.Report

	decisionOf := func(f c03Flat) (int, bool) { // decision, isTracedOrOther
		switch f.op.Kind {
		case "rename", "link":
			// two paths, two verdicts: the strictest wins (any kill => kill, else any ban => ban)
			a, b := c.Decide[f.op.K], 0
			if f.op.K < len(c.Src) {
				b = c.Src[f.op.K]
			}
			if a == 2 || b == 2 {
				return 2, true
			}
			if a == 1 || b == 1 {
				return 1, true
			}
			return 0, true
		case "mkdir", "create", "unlink", "stat", "readlink", "chmod", "symlink", "exec":
			return c.Decide[f.op.K], true
		case "other":
			if c.Default == "kill" {
				return 3, true // filter kill
			}
			return c.Other[f.op.Name], true
		case "seq":
			if c.Default == "kill" {
				return 3, true
			}
			return c.Seq[f.op.Name][f.op.K], true
		}
		return 0, false
	}
	exists := func(name string) bool {
		_, err := os.Lstat(filepath.Join(root, name))
		return err == nil
	}
	recorded := map[int]bool{}
	recordedOther := map[string]int{}
	for _, r := range h.Records {
		if r.Class == "syscall" {
			recordedOther[r.Arg]++
			continue
		}
		if m := c03MarkerRe.FindStringSubmatch(r.Arg); m != nil {
			k, _ := strconv.Atoi(m[1])
			recorded[k] = true
		}
	}
	desc := func(f c03Flat) string {
		return fmt.Sprintf("op %s(%s) k=%d name=%s proc=%d thread=%v (script #%d)", f.op.Kind, c03Sys(f.op), f.op.K, f.op.Name, f.proc, f.thread, f.idx)
	}

	// 1. per-op checks
	killedProc := map[int]int{} // sequential context -> flat index of its first kill-type op in program order
	var killTypeOps, certain int
	anyBan, anyAllowEffect := false, false
	for i, f := range flat {
		d, traced := decisionOf(f)
		m, p := fmt.Sprintf("m%d", f.op.K), fmt.Sprintf("p%d", f.op.K)
		ret, have := rep.R[f.idx]
		after := false
		if ki, ok := killedProc[f.ctx]; ok && ki < i {
			after = true
		}
		if !after {
			for _, anc := range f.path {
				if ki, ok := killedProc[flat[anc].ctx]; ok && ki < anc {
					after = true
				}
			}
		}
		switch f.op.Kind {
		case "mkdir", "create", "symlink":
			if (d != 0 || after) && exists(m) {
				return vh.Violf("C03:effect-despite-verdict", "%s: decision %d afterKill=%v but %s exists", desc(f), d, after, m)
			}
			if d == 0 && have && !after {
				if ret < 0 {
					return vh.Violf("C03:allowed-call-modified", "%s: allowed but returned %d", desc(f), ret)
				}
				if !exists(m) {
					return vh.Violf("C03:allowed-call-no-effect", "%s: returned %d but %s does not exist", desc(f), ret, m)
				}
				anyAllowEffect = true
			}
		case "unlink":
			if (d != 0 || after) && !exists(p) {
				return vh.Violf("C03:effect-despite-verdict", "%s: decision %d afterKill=%v but %s is gone", desc(f), d, after, p)
			}
			if d == 0 && have && !after {
				if ret != 0 || exists(p) {
					return vh.Violf("C03:allowed-call-modified", "%s: allowed, returned %d, still exists=%v", desc(f), ret, exists(p))
				}
				anyAllowEffect = true
			}
		case "rename":
			if (d != 0 || after) && (!exists(p) || exists(m)) {
				return vh.Violf("C03:effect-despite-verdict", "%s: decision %d afterKill=%v but rename happened", desc(f), d, after)
			}
			if d == 0 && have && !after {
				if ret != 0 || exists(p) || !exists(m) {
					return vh.Violf("C03:allowed-call-modified", "%s: allowed, returned %d, src=%v dst=%v", desc(f), ret, exists(p), exists(m))
				}
				anyAllowEffect = true
			}
		case "link":
			if (d != 0 || after) && exists(m) {
				return vh.Violf("C03:effect-despite-verdict", "%s: decision %d afterKill=%v but the link was made", desc(f), d, after)
			}
			if d == 0 && have && !after {
				if ret != 0 || !exists(p) || !exists(m) {
					return vh.Violf("C03:allowed-call-modified", "%s: allowed, returned %d, src=%v dst=%v", desc(f), ret, exists(p), exists(m))
				}
				anyAllowEffect = true
			}
		case "chmod":
			fi, err := os.Lstat(filepath.Join(root, p))
			if err != nil {
				return vh.Infraf("chmod target vanished: %v", err)
			}
			changed := fi.Mode().Perm() == 0o600
			if (d != 0 || after) && changed {
				return vh.Violf("C03:effect-despite-verdict", "%s: decision %d afterKill=%v but the mode was changed", desc(f), d, after)
			}
			if d == 0 && have && !after {
				if ret != 0 || !changed {
					return vh.Violf("C03:allowed-call-modified", "%s: allowed, returned %d, mode now %o", desc(f), ret, fi.Mode().Perm())
				}
				anyAllowEffect = true
			}
		case "exec":
			if d == 0 && have && !after && ret != -int64(syscall.ENOENT) {
				return vh.Violf("C03:allowed-call-modified", "%s: allowed exec of a missing file returned %d want %d", desc(f), ret, -int64(syscall.ENOENT))
			}
		case "stat":
			if d == 0 && have && !after {
				want := int64(0)
				if f.op.K%2 != 0 {
					want = -int64(syscall.ENOENT)
				}
				if ret != want {
					return vh.Violf("C03:allowed-call-modified", "%s: allowed stat returned %d want %d", desc(f), ret, want)
				}
			}
		case "readlink":
			if d == 0 && have && !after && ret != int64(len(m)) {
				return vh.Violf("C03:allowed-call-modified", "%s: allowed readlink returned %d want %d", desc(f), ret, len(m))
			}
		case "getpid":
			if have && f.proc == 0 && mainPid != 0 && ret != int64(mainPid) {
				return vh.Violf("C03:untraced-call-modified", "%s: getpid()=%d, the tracer saw pid %d", desc(f), ret, mainPid)
			}
			if have && ret <= 0 {
				return vh.Violf("C03:untraced-call-modified", "%s: getpid()=%d", desc(f), ret)
			}
		case "getppid":
			if have && f.proc != 0 && !f.thread && len(f.path) > 0 {
				sp := flat[f.path[len(f.path)-1]]
				if sp.op.Kind != "thread" && sp.proc == 0 && mainPid != 0 && ret != int64(mainPid) {
					return vh.Violf("C03:untraced-call-modified", "%s: getppid()=%d, parent is %d", desc(f), ret, mainPid)
				}
			}
		case "seq":
			if c.Default == "trace" && have && !after {
				switch d {
				case 0:
					if ret < 0 && ret > -4096 {
						return vh.Violf("C03:allowed-call-modified", "%s: allowed %s (call #%d of the same syscall) returned %d", desc(f), f.op.Name, f.op.K+1, ret)
					}
				case 1:
					if ret != -int64(c.BanRet) {
						return vh.Violf("C03:ban-wrong-return", "%s: %s call #%d was banned (earlier calls of the same syscall were decided %v) but returned %d, want %d", desc(f), f.op.Name, f.op.K+1, c.Seq[f.op.Name][:f.op.K], ret, -c.BanRet)
					}
				}
				if recordedOther[f.op.Name] < f.op.K+1 && d != 2 {
					return vh.Violf("C03:not-consulted", "%s: %s call #%d completed with %d but the handler was asked only %d times about that syscall", desc(f), f.op.Name, f.op.K+1, ret, recordedOther[f.op.Name])
				}
			}
		case "other":
			if c.Default == "trace" && have && !after {
				switch d {
				case 0:
					if ret < 0 && ret > -4096 && f.op.Name != "alarm" {
						return vh.Violf("C03:allowed-call-modified", "%s: allowed %s returned %d", desc(f), f.op.Name, ret)
					}
				case 1:
					if ret != -int64(c.BanRet) {
						return vh.Violf("C03:ban-wrong-return", "%s: banned %s returned %d want %d", desc(f), f.op.Name, ret, -c.BanRet)
					}
				}
			}
		}
		if traced && d == 1 && have && !after && f.op.Kind != "other" && f.op.Kind != "seq" {
			anyBan = true
			if ret != -int64(c.BanRet) {
				return vh.Violf("C03:ban-wrong-return", "%s: banned call returned %d, want %d", desc(f), ret, -c.BanRet)
			}
		}
		if traced && (d == 2 || d == 3) && have && !after {
			// a killed call can never have returned to the program
			return vh.Violf("C03:killed-call-returned", "%s: decision kill but the program saw return value %d", desc(f), ret)
		}
		// every completed traced op was decided by the handler
		if traced && have && !after && d != 3 {
			if f.op.Kind == "seq" {
				// checked above, per occurrence
			} else if f.op.Kind == "other" {
				if recordedOther[f.op.Name] == 0 {
					return vh.Violf("C03:not-consulted", "%s completed with %d but the handler was never asked", desc(f), ret)
				}
			} else if !recorded[f.op.K] {
				return vh.Violf("C03:not-consulted", "%s completed with %d but the handler was never asked about its path", desc(f), ret)
			}
		}
		if traced && (d == 2 || d == 3) {
			killTypeOps++
			if _, ok := killedProc[f.ctx]; !ok {
				killedProc[f.ctx] = i
			}
		}
	}

	// 2. the run verdict
	// "certain" kill: a kill-type op on main's straight line, or on the straight line of a direct fork/vfork child of
	// main that main waits for before any exit, with nothing kill-typed before it in main.
	mainKill := -1
	for i, f := range flat {
		d, traced := decisionOf(f)
		if f.proc == 0 && !f.thread && len(f.path) == 0 && traced && (d == 2 || d == 3) {
			mainKill = i
			break
		}
	}
	if mainKill < 0 && threadKillAt >= 0 {
		// a thread of the main process makes a kill-type call while main sleeps: "for every process and thread"
		mainKill = threadKillAt
	}
	if mainKill >= 0 {
		certain++
	}
	switch {
	case killTypeOps == 0:
		want := runner.StatusNormal
		if c.Exit != 0 {
			want = runner.StatusNonzeroExitStatus
		}
		if res.Status != want || res.ExitStatus != c.Exit {
			return vh.Violf("C03:verdict", "no kill anywhere: status %v exit %d error %q, want %v exit %d", res.Status, res.ExitStatus, res.Error, want, c.Exit)
		}
	case mainKill >= 0:
		// was anything kill-typed reachable earlier in another process? either way the verdict must be Disallowed Syscall
		if res.Status != runner.StatusDisallowedSyscall {
			return vh.Violf("C03:verdict", "kill-type op on main's path (%s) but status %v exit %d error %q", desc(flat[mainKill]), res.Status, res.ExitStatus, res.Error)
		}
	default:
		ok := res.Status == runner.StatusDisallowedSyscall || (c.Exit == 0 && res.Status == runner.StatusNormal) || (c.Exit != 0 && res.Status == runner.StatusNonzeroExitStatus && res.ExitStatus == c.Exit)
		if !ok {
			return vh.Violf("C03:verdict", "status %v exit %d error %q is neither Disallowed Syscall nor the program's own ending", res.Status, res.ExitStatus, res.Error)
		}
	}
	if res.Status == runner.StatusRunnerError {
		return vh.Violf("C03:runner-error", "%q", res.Error)
	}
	if l := liveTagged(tr.Tag); len(l) > 0 {
		killTagged(tr.Tag)
		return vh.Violf("C03:survivor", "tagged processes alive after the run: %v", l)
	}

	nt := (anyBan && anyAllowEffect) || killTypeOps > 0 || procCount > 1
	var classes []string
	classes = append(classes, "default="+c.Default, fmt.Sprintf("procs=%d", min(procCount, 5)))
	if killTypeOps > 0 {
		classes = append(classes, "has-kill")
	}
	if mainKill >= 0 {
		classes = append(classes, "kill-on-main-path")
	}
	if threadKillAt >= 0 && mainKill == threadKillAt {
		classes = append(classes, "kill-in-thread-of-main(certain)")
	}
	for _, f := range flat {
		if f.op.Kind == "thread" || f.op.Kind == "vfork" || f.op.Kind == "fork" {
			classes = append(classes, "spawn="+f.op.Kind)
		}
		if _, ok := c03Forms[f.op.Kind]; ok {
			if d, _ := decisionOf(f); d >= 0 && d <= 2 {
				classes = append(classes, "sys="+c03Sys(f.op)+"/"+[]string{"allow", "ban", "kill"}[d])
			}
		}
	}
	rec.Case(c, nt, dedup(classes)...)
	rec.Evals(len(flat))
	if nt && rec.WantSample() && len(flat) < 14 {
		rec.Sample(c)
	}
	_ = strings.TrimSpace
	return nil
}

func TestC03Verdicts(t *testing.T) {
	rec := vh.NewRecorder(t, "C03", "exploration",
		"case = program tree (fork/vfork/thread blocks to depth 3, new tasks start with a traced call) of traced side-effecting calls on unique marker names (mkdirat, openat O_CREAT, unlinkat, renameat), traced read-only calls, untraced getpid/getppid and out-of-list syscalls (filter default kill or trace; one case in three starts with 2..6 calls of one plain syscall decided per occurrence, e.g. allow, allow, ban) x a decision function marker->{allow,ban,kill} x BanRet in {EACCES,EPERM,ENOENT,EROFS}; "+
			"oracle = return values reported by the program, file-system effects after the run, handler log, Result.Status; non-trivial = (a ban and an allowed call with a side effect) or a kill or >=2 processes")
	rec.Assume("the verdict when the filter or handler kills in a process main does not wait for is only required to be Disallowed Syscall or the program's own ending")
	root, err := vh.ScratchDir("c03")
	if err != nil {
		t.Fatalf("INFRA: %v", err)
	}
	defer os.RemoveAll(root)
	root, _ = filepath.EvalSymlinks(root)
	vh.Check(t, rec, c03GenCase, func(c c03Case) error { return c03Run(c, root, rec) })
}

package checks

// C05 — FS confinement: only configured mounts visible; read-only means read-only; masked paths reveal nothing;
// nothing of the host outside the declared bind sources is reachable. Both implementations of the mount sequence:
// the raw in-child one (namespace runner) and the container's.

import (
	"context"
	"fmt"
	"os"
	"path/filepath"
	"sort"
	"strings"
	"syscall"
	"testing"
	"time"

	"github.com/criyle/go-sandbox/container"
	"github.com/criyle/go-sandbox/pkg/mount"
	"github.com/criyle/go-sandbox/runner"
	"github.com/criyle/go-sandbox/runner/unshare"
	"golang.org/x/sys/unix"
	"pgregory.net/rapid"

	"verif/internal/probe"
	"verif/internal/vh"
)

type c05Mount struct {
	Kind   string // bind-ro-dir bind-rw-dir bind-ro-file bind-rw-file tmpfs tmpfs-size proc-ro proc-rw bind-missing
	Target string
	Src    int
	Raw    int // binds: 0 = Builder.WithBind; 1..3 = a hand-written mount.Mount with other (equally valid) flag words
}

type c05Case struct {
	Impl    string // unshare | container
	Mounts  []c05Mount
	Links   [][2]string // container: link path, target
	Masks   []string    // container: paths (relative to a mount) to mask
	DevNull bool        // container: bind /dev/null into the container (masks need it, see DESIGN.md finding 11)
	InitCmd bool        // container: an InitCommand (the probe, bound read-only) runs before the first program
	// container: the table is handed to the Builder as written (entries whose source is missing included) instead of
	// being filtered by the caller first; namespace runner: no effect (its callers always filter)
	Unfiltered bool `json:",omitempty"`
	// container: the program is started with two listed descriptors only (report pipe, release pipe): the unfilled third
	// stdio slot must not hold anything of the init's - its own stdio are host objects that are in no bind mount
	FewFiles bool `json:",omitempty"`
	// namespace runner: the first directory bind source lives on a mount with shared propagation, and while the program
	// runs the host mounts something below that source: nothing of that may appear in the sandbox
	Shared bool `json:",omitempty"`
}

func c05GenCase(rt *rapid.T) c05Case {
	c := c05Case{Impl: rapid.SampledFrom([]string{"unshare", "container"}).Draw(rt, "impl"), DevNull: rapid.IntRange(0, 7).Draw(rt, "devnull") != 0,
		Shared: rapid.IntRange(0, 3).Draw(rt, "sharedsrc") == 0}
	n := rapid.IntRange(0, 7).Draw(rt, "n")
	// one case in six: a table that is empty once the entries with a missing source are dropped
	nothingLeft := rapid.IntRange(0, 5).Draw(rt, "nothingleft") == 0
	if nothingLeft {
		n = rapid.IntRange(0, 3).Draw(rt, "nmissing")
	}
	type placed struct {
		target string
		kind   string
	}
	var dirs []placed // directory-like mounts that can host a nested target
	proc := false
	for i := 0; i < n; i++ {
		kind := rapid.SampledFrom([]string{"bind-ro-dir", "bind-ro-dir", "bind-rw-dir", "bind-ro-file", "bind-rw-file", "tmpfs", "tmpfs-size", "proc-ro", "proc-rw", "bind-missing"}).Draw(rt, "kind")
		if nothingLeft {
			kind = "bind-missing"
		}
		if strings.HasPrefix(kind, "proc") {
			if proc {
				kind = "tmpfs"
			} else {
				proc = true
				c.Mounts = append(c.Mounts, c05Mount{Kind: kind, Target: "proc"})
				continue
			}
		}
		target := fmt.Sprintf("t%d", i)
		if len(dirs) > 0 && rapid.IntRange(0, 2).Draw(rt, "nest") == 0 {
			p := rapid.SampledFrom(dirs).Draw(rt, "parent")
			switch {
			case strings.HasPrefix(p.kind, "tmpfs"):
				target = p.target + "/" + fmt.Sprintf("n%d", i)
			case strings.HasPrefix(p.kind, "bind"):
				// inside a bind only onto what the source already has
				if strings.HasSuffix(kind, "-file") {
					target = p.target + "/file"
				} else {
					target = p.target + "/sub"
				}
			}
		}
		for _, prev := range c.Mounts {
			if prev.Target == target {
				target = fmt.Sprintf("t%d", i) // one mount per target
			}
		}
		m := c05Mount{Kind: kind, Target: target, Src: i}
		if strings.HasPrefix(kind, "bind-r") && rapid.IntRange(0, 2).Draw(rt, "rawbind") == 0 {
			m.Raw = rapid.IntRange(1, 3).Draw(rt, "rawflags")
		}
		c.Mounts = append(c.Mounts, m)
		if kind == "bind-ro-dir" || kind == "bind-rw-dir" || kind == "tmpfs" || kind == "tmpfs-size" {
			dirs = append(dirs, placed{target, kind})
		}
	}
	if c.Impl == "container" {
		nl := rapid.IntRange(0, 2).Draw(rt, "nl")
		for i := 0; i < nl; i++ {
			c.Links = append(c.Links, [2]string{fmt.Sprintf("/l%d/link", i), rapid.SampledFrom([]string{"/proc/self/fd", "/t0", "../x"}).Draw(rt, "ltarget")})
		}
		var cand []string
		for _, m := range c.Mounts {
			if (m.Kind == "bind-ro-dir" || m.Kind == "bind-rw-dir") && !strings.Contains(m.Target, "/") {
				for _, w := range []string{"/file", "/sub", "/nonexistent", "/victim"} {
					if rapid.IntRange(0, 2).Draw(rt, "mask") == 0 {
						cand = append(cand, "/"+m.Target+w)
					}
				}
			}
		}
		if len(cand) > 1 {
			cand = rapid.Permutation(cand).Draw(rt, "maskorder")
		}
		c.Masks = cand
		c.InitCmd = rapid.IntRange(0, 3).Draw(rt, "initcmd") == 0
		if c.InitCmd {
			c.DevNull = true // os/exec needs it for the command's stdio
		}
		c.Unfiltered = rapid.IntRange(0, 3).Draw(rt, "unfiltered") == 0
		c.FewFiles = rapid.IntRange(0, 3).Draw(rt, "fewfiles") == 0
		if nothingLeft {
			c.Unfiltered, c.DevNull, c.InitCmd = n > 0, false, false
		}
	}
	return c
}

type c05MI struct {
	Point, Opts, FsType, Source, SuperOpts string
}

func parseMountinfo(s string) []c05MI {
	var out []c05MI
	for _, ln := range strings.Split(s, "\n") {
		f := strings.Fields(ln)
		if len(f) < 10 {
			continue
		}
		sep := -1
		for i, x := range f {
			if x == "-" {
				sep = i
			}
		}
		if sep < 0 || sep+3 > len(f) {
			continue
		}
		so := ""
		if sep+3 < len(f) {
			so = f[sep+3]
		}
		out = append(out, c05MI{Point: f[4], Opts: f[5], FsType: f[sep+1], Source: f[sep+2], SuperOpts: so})
	}
	return out
}

func hasOpt(opts, o string) bool {
	for _, x := range strings.Split(opts, ",") {
		if x == o {
			return true
		}
	}
	return false
}

// runInspect starts run in a goroutine, waits until the program (pid from the sync callback) blocks in read(4),
// calls inspect, releases the program and returns the result.
func runInspect(run func(sync func(int) error) runner.Result, release *os.File, inspect func(pid int), waitFd ...int) (runner.Result, error) {
	wfd := 4
	if len(waitFd) > 0 {
		wfd = waitFd[0]
	}
	pidCh := make(chan int, 1)
	resCh := make(chan runner.Result, 1)
	go func() {
		resCh <- run(func(pid int) error {
			select {
			case pidCh <- pid:
			default:
			}
			return nil
		})
	}()
	var pid int
	select {
	case pid = <-pidCh:
	case r := <-resCh:
		return r, nil
	case <-time.After(120 * time.Second):
		return runner.Result{}, vh.Violf("C05:hung", "launch did not reach the sync callback in 120s")
	}
	deadline := time.Now().Add(10 * time.Second)
	for {
		if sysc, err := os.ReadFile(fmt.Sprintf("/proc/%d/syscall", pid)); err == nil && strings.HasPrefix(string(sysc), fmt.Sprintf("0 0x%x ", wfd)) {
			inspect(pid)
			break
		}
		select {
		case r := <-resCh:
			return r, nil // ended before reaching the wait point (launch failure etc.)
		default:
		}
		if time.Now().After(deadline) {
			break
		}
		time.Sleep(300 * time.Microsecond)
	}
	release.Write([]byte{1})
	select {
	case r := <-resCh:
		return r, nil
	case <-time.After(120 * time.Second):
		return runner.Result{}, vh.Violf("C05:hung", "run did not finish in 120s after release")
	}
}

func c05Run(c c05Case, dir string, rec *vh.Recorder) error {
	// a mask on top of a configured mount point is not generated (which of the two "wins" is not specified)
	var masks []string
	for _, mp := range c.Masks {
		clash := false
		for _, m := range c.Mounts {
			if "/"+m.Target == mp {
				clash = true
			}
		}
		if !clash {
			masks = append(masks, mp)
		}
	}
	c.Masks = masks
	real := 0
	for _, m := range c.Mounts {
		if m.Kind != "bind-missing" {
			real++
		}
	}
	if c.Impl != "container" {
		c.Unfiltered = false
	}
	if real == 0 && c.Impl == "container" && !(c.Unfiltered && len(c.Mounts) > 0 && !c.DevNull && !c.InitCmd) {
		// an empty table means "default mounts" to container.Builder; keep the table explicit
		c.Mounts = append(c.Mounts, c05Mount{Kind: "tmpfs", Target: "tz", Src: len(c.Mounts)})
		real++
	}
	// host sources
	os.RemoveAll(filepath.Join(dir, "src"))
	os.RemoveAll(filepath.Join(dir, "secret"))
	os.MkdirAll(filepath.Join(dir, "secret"), 0o755)
	os.WriteFile(filepath.Join(dir, "secret", "SECRETMARKER"), []byte("host secret"), 0o644)
	sharedIdx, sharedBase := -1, filepath.Join(dir, "shared")
	if c.Shared && c.Impl == "unshare" {
		for i, m := range c.Mounts {
			if m.Kind == "bind-ro-dir" || m.Kind == "bind-rw-dir" {
				sharedIdx = i
				break
			}
		}
	}
	if sharedIdx >= 0 {
		os.MkdirAll(sharedBase, 0o755)
		if err := unix.Mount("tmpfs", sharedBase, "tmpfs", 0, ""); err != nil {
			return vh.Infraf("shared tmpfs: %v", err)
		}
		defer func() {
			unix.Unmount(filepath.Join(sharedBase, "s", "sub"), unix.MNT_DETACH)
			unix.Unmount(sharedBase, unix.MNT_DETACH)
		}()
		if err := unix.Mount("", sharedBase, "", unix.MS_SHARED, ""); err != nil {
			return vh.Infraf("make shared: %v", err)
		}
	}
	srcDir := func(i int) string {
		if i == sharedIdx {
			return filepath.Join(sharedBase, "s")
		}
		return filepath.Join(dir, "src", fmt.Sprintf("s%d", i))
	}
	for i := range c.Mounts {
		d := srcDir(i)
		os.MkdirAll(filepath.Join(d, "sub"), 0o755)
		os.WriteFile(filepath.Join(d, "file"), []byte(fmt.Sprintf("SRC%d", i)), 0o644)
		os.WriteFile(filepath.Join(d, "sub", "inner"), []byte("inner"), 0o644)
		os.WriteFile(filepath.Join(d, "victim"), []byte("victim"), 0o644)
	}
	mb := mount.NewBuilder()
	type exp struct {
		m        c05Mount
		writable bool
		isFile   bool
		present  bool
		src      string
	}
	var exps []exp
	withBind := func(m c05Mount, src string, ro bool) {
		if m.Raw == 0 {
			mb.WithBind(src, m.Target, ro)
			return
		}
		fl := uintptr([]int{0, unix.MS_BIND, unix.MS_BIND | unix.MS_REC, unix.MS_BIND | unix.MS_NOSUID | unix.MS_NODEV}[m.Raw])
		if ro {
			fl |= unix.MS_RDONLY
		}
		mb.WithMount(mount.Mount{Source: src, Target: m.Target, Flags: fl})
	}
	for i, m := range c.Mounts {
		e := exp{m: m, present: true}
		switch m.Kind {
		case "bind-ro-dir", "bind-rw-dir":
			e.src = srcDir(i)
			e.writable = m.Kind == "bind-rw-dir"
			withBind(m, e.src, !e.writable)
		case "bind-ro-file", "bind-rw-file":
			e.src = filepath.Join(srcDir(i), "file")
			e.writable = m.Kind == "bind-rw-file"
			e.isFile = true
			withBind(m, e.src, !e.writable)
		case "bind-missing":
			e.present = false
			mb.WithBind(filepath.Join(dir, "src", "does-not-exist"), m.Target, true)
		case "tmpfs":
			e.writable = true
			mb.WithTmpfs(m.Target, "")
		case "tmpfs-size":
			e.writable = true
			mb.WithTmpfs(m.Target, "size=1m,nr_inodes=64")
		case "proc-ro":
			mb.WithProc()
		case "proc-rw":
			e.writable = true
			mb.WithProcRW(true)
		}
		exps = append(exps, e)
	}
	if c.Impl == "container" && c.DevNull {
		mb.WithBind("/dev/null", "dev/null", false)
	}
	if c.Impl == "container" && c.InitCmd {
		mb.WithBind(probe.Path(), "vinit", true)
	}
	if !c.Unfiltered {
		mb.FilterNotExist()
	}
	// whatever happens, the probe's modification battery must not leave anything on the host's own root
	defer func() {
		for _, n := range []string{"newdir", "newfile", "newlink", "newnod"} {
			os.Remove("/" + n)
		}
	}()

	// probe script
	var s probe.Script
	few := c.FewFiles && c.Impl == "container"
	s.Add("report:fds") // first thing: what the program was started with, before it opens anything itself
	at := uint64(0xffffffffffffff9c)
	type opRef struct {
		what   string
		target string
		idx    int
	}
	var refs []opRef
	battery := func(target string, isFile bool, label string) {
		base := "/" + target
		if target == "" {
			base = ""
		}
		if isFile {
			refs = append(refs, opRef{label + ":open-w", target, s.Sys(sysNr["openat"], at, s.Str(base), syscall.O_WRONLY, 0)})
			refs = append(refs, opRef{label + ":truncate", target, s.Sys(sysNr["truncate"], s.Str(base), 1)})
			refs = append(refs, opRef{label + ":chmod", target, s.Sys(sysNr["fchmodat"], at, s.Str(base), 0o600)})
			return
		}
		refs = append(refs, opRef{label + ":mkdir", target, s.Sys(sysNr["mkdirat"], at, s.Str(base+"/newdir"), 0o755)})
		refs = append(refs, opRef{label + ":create", target, s.Sys(sysNr["openat"], at, s.Str(base+"/newfile"), syscall.O_CREAT|syscall.O_WRONLY, 0o644)})
		refs = append(refs, opRef{label + ":symlink", target, s.Sys(sysNr["symlinkat"], s.Str("x"), at, s.Str(base+"/newlink"))})
		refs = append(refs, opRef{label + ":mknod", target, s.Sys(sysNr["mknodat"], at, s.Str(base+"/newnod"), 0o100644, 0)})
	}
	battery("", false, "root")
	for _, e := range exps {
		if !e.present || strings.HasPrefix(e.m.Kind, "proc") {
			continue
		}
		battery(e.m.Target, e.isFile, "mount")
		if strings.HasPrefix(e.m.Kind, "bind") && !e.isFile {
			base := "/" + e.m.Target
			refs = append(refs, opRef{"mount:open-w-existing", e.m.Target, s.Sys(sysNr["openat"], at, s.Str(base+"/victim"), syscall.O_WRONLY|syscall.O_TRUNC, 0)})
			refs = append(refs, opRef{"mount:unlink-existing", e.m.Target, s.Sys(sysNr["unlinkat"], at, s.Str(base+"/victim"), 0)})
		}
	}
	for _, e := range exps {
		if e.m.Kind == "proc-ro" {
			refs = append(refs, opRef{"proc-ro:open-w", "proc", s.Sys(sysNr["openat"], at, s.Str("/proc/sys/kernel/ns_last_pid"), syscall.O_WRONLY, 0)})
		}
	}
	for _, mp := range c.Masks {
		refs = append(refs, opRef{"mask:cat", mp, s.Add("cat:" + s.Str(mp))})
		refs = append(refs, opRef{"mask:mkdir", mp, s.Sys(sysNr["mkdirat"], at, s.Str(mp+"/x"), 0o755)})
	}
	walkIdx := s.Add("walk:" + s.Str("/") + ":5")
	escIdx := s.Add("walk:" + s.Str("/../..") + ":2")
	oldIdx := s.Sys(sysNr["access"], s.Str("/old_root"), 0)
	_ = walkIdx
	_ = escIdx
	s.Sys(sysNr["getppid"])
	if few {
		s.Add("waitgo:1")
	} else {
		s.Add("waitgo:4")
	}
	s.Add("exit:0")

	rp, err := newReportPipe()
	if err != nil {
		return err
	}
	gr, gw, err := os.Pipe()
	if err != nil {
		rp.finish()
		return vh.Infraf("pipe: %v", err)
	}
	defer gr.Close()
	defer gw.Close()
	dn := devNullFile()
	efd, err := probeExecFd()
	if err != nil {
		rp.finish()
		return err
	}
	tag := newTag()
	argv := s.Argv(tag, 3)
	if few {
		argv = s.Argv(tag, 0)
	}
	argv[0] = "/vprobe"
	files := []uintptr{dn.Fd(), dn.Fd(), dn.Fd(), rp.pw.Fd(), gr.Fd()}
	if few {
		files = []uintptr{rp.pw.Fd(), gr.Fd()}
	}
	var mountinfo string
	inspect := func(pid int) {
		if sharedIdx >= 0 {
			// the host mounts something below the shared bind source while the program is alive
			if err := unix.Mount("tmpfs", filepath.Join(srcDir(sharedIdx), "sub"), "tmpfs", 0, ""); err == nil {
				rec.Class("host-mounts-below-a-shared-bind-source-while-the-program-runs", 1)
			}
		}
		b, _ := os.ReadFile(fmt.Sprintf("/proc/%d/mountinfo", pid))
		mountinfo = string(b)
	}
	var res runner.Result
	switch c.Impl {
	case "unshare":
		root := filepath.Join(dir, "uroot")
		os.MkdirAll(root, 0o755)
		mp, err := mb.Build()
		if err != nil {
			rp.finish()
			return vh.Infraf("mount build: %v", err)
		}
		filter, _ := buildFilter(nil, nil, 1 /*allow*/)
		res, err = runInspect(func(sync func(int) error) runner.Result {
			r := &unshare.Runner{Args: argv, Env: []string{"A=1"}, ExecFile: efd, Files: files, Root: root, Mounts: mp, WorkDir: "/", Seccomp: filter,
				Limit: runner.Limit{TimeLimit: 30 * time.Second, MemoryLimit: 1 << 30}, SyncFunc: sync}
			return r.Run(context.Background())
		}, gw, inspect)
		if err != nil {
			rp.finish()
			killTagged(tag)
			return err
		}
	case "container":
		b := &container.Builder{Mounts: mb.Mounts, WorkDir: "/", MaskPaths: c.Masks}
		if c.InitCmd {
			var is probe.Script
			is.Add("exit:0")
			b.InitCommand = append([]string{"/vinit"}, is.Argv(newTag(), 2)[1:]...)
		}
		if len(c.Masks) == 0 {
			b.MaskPaths = []string{"/nonexistent-mask"}
		}
		for _, l := range c.Links {
			b.SymbolicLinks = append(b.SymbolicLinks, container.SymbolicLink{LinkPath: l[0], Target: l[1]})
		}
		if len(c.Links) == 0 {
			b.SymbolicLinks = []container.SymbolicLink{{LinkPath: "/lnk", Target: "/nowhere"}}
		}
		env, root, err := buildContainer(b)
		if err != nil {
			rp.finish()
			// a table the implementation refuses is not this property's subject
			rec.Class("container-build-refused", 1)
			if real == 0 {
				rec.Class("container-build-refused:every-source-missing", 1)
			}
			rec.Case(c, false, "refused")
			return nil
		}
		defer os.RemoveAll(root)
		defer env.Destroy()
		res, err = runInspect(func(sync func(int) error) runner.Result {
			return env.Execve(context.Background(), container.ExecveParam{Args: argv, Env: []string{"A=1"}, ExecFile: efd, Files: files, SyncFunc: sync})
		}, gw, inspect, map[bool]int{true: 1, false: 4}[few])
		if err != nil {
			rp.finish()
			killTagged(tag)
			return err
		}
	}
	rep := rp.finish()
	killTagged(tag)
	desc := fmt.Sprintf("%+v", c)
	if res.Status != runner.StatusNormal {
		if res.Status == runner.StatusRunnerError {
			rec.Class("launch-refused:"+c.Impl, 1)
			rec.Case(c, false, "refused")
			return nil
		}
		return vh.Violf("C05:run", "status %v exit %d err %q; %s", res.Status, res.ExitStatus, res.Error, desc)
	}
	if !rep.WalkDone {
		return vh.Violf("C05:no-report", "report incomplete %q; %s", rep.Raw, desc)
	}

	// 0. nothing of the host reaches the program through a descriptor it was not given
	if rep.FDsDone {
		for _, f := range rep.FDs {
			if f.N >= len(files) {
				return vh.Violf("C05:host-object-reachable-through-inherited-descriptor", "the program was given %d descriptors but also has descriptor %d open (dev %d ino %d mode %o): an object of the host that is in no declared bind source; %s", len(files), f.N, f.Dev, f.Ino, f.Mode, desc)
			}
		}
		if few {
			rec.Class("two-listed-descriptors-only(third stdio slot unfilled)", 1)
		}
	}
	// 1. writes
	isUnder := func(target, parent string) bool { return target == parent || strings.HasPrefix(target, parent+"/") }
	governing := func(target string) *exp {
		// the last configured mount whose target is a prefix of target (later entries shadow earlier ones)
		var g *exp
		for i := range exps {
			e := &exps[i]
			if e.present && isUnder(target, e.m.Target) {
				if g == nil || len(e.m.Target) >= len(g.m.Target) {
					g = e
				}
			}
		}
		return g
	}
	erofs := -int64(syscall.EROFS)
	for _, r := range refs {
		ret, ok := rep.R[r.idx]
		if !ok {
			return vh.Violf("C05:no-report", "op %s on %q has no result; %s", r.what, r.target, desc)
		}
		switch {
		case strings.HasPrefix(r.what, "root:"):
			if ret != erofs {
				return vh.Violf("C05:root-writable", "%s on the root returned %d, want EROFS; %s", r.what, ret, desc)
			}
		case strings.HasPrefix(r.what, "proc-ro:"):
			if ret >= 0 {
				return vh.Violf("C05:ro-proc-writable", "opening a /proc/sys file for writing succeeded on a read-only proc; %s", desc)
			}
		case strings.HasPrefix(r.what, "mask:cat"):
			if content, isCat := rep.Cat[r.idx]; isCat && content != "" && !strings.HasPrefix(content, "err ") {
				key := "C05:mask-reveals"
				if !c.DevNull {
					key = "C05:mask-reveals/no-dev-null"
				}
				return vh.Violf(key, "masked path %s reads %q; %s", r.target, content, desc)
			}
		case strings.HasPrefix(r.what, "mask:mkdir"):
			if ret >= 0 {
				return vh.Violf("C05:mask-writable", "mkdir inside masked %s succeeded; %s", r.target, desc)
			}
		case strings.HasPrefix(r.what, "mount:"):
			g := governing(r.target)
			if g == nil {
				continue
			}
			masked := false
			opPath := "/" + r.target
			if strings.HasSuffix(r.what, "-existing") {
				opPath += "/victim"
			}
			for _, mp := range c.Masks {
				if isUnder(opPath, mp) {
					masked = true
				}
			}
			if masked {
				continue
			}
			if !g.writable {
				if ret != erofs {
					return vh.Violf("C05:ro-mount-writable", "%s under read-only %s (%s) returned %d, want EROFS; %s", r.what, r.target, g.m.Kind, ret, desc)
				}
			} else if g.m.Target == r.target {
				// the op addresses the writable mount itself
				if ret < 0 && !(g.m.Kind == "tmpfs-size" && (ret == -int64(syscall.ENOSPC))) && !(r.what == "mount:mknod" && ret == -int64(syscall.EPERM)) {
					return vh.Violf("C05:rw-mount-refuses", "%s under writable %s (%s) returned %d; %s", r.what, r.target, g.m.Kind, ret, desc)
				}
			}
		}
	}
	// rw bind: the effects are in the bind source on the host; ro bind sources are untouched
	for i, e := range exps {
		if !e.present || !strings.HasPrefix(e.m.Kind, "bind") || e.isFile {
			continue
		}
		_, err := os.Stat(filepath.Join(srcDir(i), "newdir"))
		shadowed := false
		for _, o := range exps {
			if o.present && o.m.Target != e.m.Target && isUnder(e.m.Target, o.m.Target) && false {
				shadowed = true
			}
		}
		_ = shadowed
		maskedTarget := false
		for _, mp := range c.Masks {
			if isUnder("/"+e.m.Target, mp) {
				maskedTarget = true
			}
		}
		if e.writable && err != nil && governing(e.m.Target) == &exps[i] && !maskedTarget {
			return vh.Violf("C05:rw-bind-not-backed", "mkdir in rw bind %s is not visible in its source %s; %s", e.m.Target, srcDir(i), desc)
		}
		if !e.writable && err == nil {
			return vh.Violf("C05:ro-bind-source-modified", "source %s of read-only bind %s was modified; %s", srcDir(i), e.m.Target, desc)
		}
		if b, _ := os.ReadFile(filepath.Join(srcDir(i), "victim")); !e.writable && string(b) != "victim" {
			return vh.Violf("C05:ro-bind-source-modified", "file in source of read-only bind %s was truncated/removed; %s", e.m.Target, desc)
		}
	}
	for i, e := range exps {
		if e.present && e.isFile && !e.writable {
			if b, _ := os.ReadFile(filepath.Join(srcDir(i), "file")); string(b) != fmt.Sprintf("SRC%d", i) {
				return vh.Violf("C05:ro-bind-source-modified", "source file of read-only file bind %s changed to %q; %s", e.m.Target, b, desc)
			}
		}
	}

	// 2. what is visible
	top := map[string]bool{}
	for _, e := range exps {
		if e.present {
			top[strings.Split(e.m.Target, "/")[0]] = true
		}
	}
	if c.Impl == "container" {
		if c.DevNull {
			top["dev"] = true
		}
		if c.InitCmd {
			top["vinit"] = true
		}
		for _, l := range c.Links {
			top[strings.Split(strings.TrimPrefix(l[0], "/"), "/")[0]] = true
		}
		if len(c.Links) == 0 {
			top["lnk"] = true
		}
	}
	seenTop := map[string]bool{}
	for _, w := range rep.Walk {
		if strings.Contains(w.Path, "SECRETMARKER") {
			return vh.Violf("C05:host-reachable", "host secret visible at %s; %s", w.Path, desc)
		}
		if w.Err != 0 {
			continue
		}
		p := strings.TrimPrefix(w.Path, "/")
		if strings.HasPrefix(w.Path, "/../..") {
			p = strings.TrimPrefix(strings.TrimPrefix(w.Path, "/../.."), "/")
		}
		if p == "" {
			continue
		}
		first := strings.Split(p, "/")[0]
		seenTop[first] = true
		if !top[first] {
			return vh.Violf("C05:extra-root-entry", "root contains %q which is not a configured mount point, link or work dir (configured: %v); %s", first, keys(top), desc)
		}
	}
	for t := range top {
		if !seenTop[t] {
			return vh.Violf("C05:missing-root-entry", "configured top-level %q is not visible in the root listing; %s", t, desc)
		}
	}
	if rep.R[oldIdx] >= 0 {
		return vh.Violf("C05:old-root-reachable", "/old_root still exists; %s", desc)
	}

	// 3. mount table seen from the host
	if mountinfo == "" {
		return vh.Infraf("no mountinfo captured")
	}
	mis := parseMountinfo(mountinfo)
	want := map[string]*exp{}
	for i := range exps {
		if exps[i].present {
			want["/"+exps[i].m.Target] = &exps[i]
		}
	}
	for _, mi := range mis {
		switch {
		case mi.Point == "/":
			if !hasOpt(mi.Opts, "ro") {
				return vh.Violf("C05:root-writable", "root mount options %q; %s", mi.Opts, desc)
			}
			if mi.FsType != "tmpfs" {
				return vh.Violf("C05:host-mount-visible", "root is %s %s; %s", mi.FsType, mi.Source, desc)
			}
		case c.Impl == "container" && isMaskPoint(mi.Point, c.Masks) && (mi.FsType == "tmpfs" || mi.FsType == "devtmpfs") && (want[mi.Point] == nil || strings.HasPrefix(want[mi.Point].m.Kind, "bind")):
			// the mask itself, stacked on the path it hides
		case want[mi.Point] != nil:
			e := want[mi.Point]
			if !e.writable && !hasOpt(mi.Opts, "ro") {
				return vh.Violf("C05:ro-mount-writable", "mount %s (%s) has options %q; %s", mi.Point, e.m.Kind, mi.Opts, desc)
			}
			if e.writable && hasOpt(mi.Opts, "ro") {
				return vh.Violf("C05:rw-mount-refuses", "mount %s (%s) has options %q; %s", mi.Point, e.m.Kind, mi.Opts, desc)
			}
		case c.Impl == "container" && (mi.Point == "/dev/null" || (c.InitCmd && mi.Point == "/vinit") || isMaskPoint(mi.Point, c.Masks)):
		case strings.HasPrefix(mi.Point, "/proc/") && mi.FsType != "proc":
			// sub-mounts that come with a fresh proc instance (binfmt_misc etc.) would be fstype-specific; none expected
			return vh.Violf("C05:host-mount-visible", "unexpected mount %s (%s from %s); %s", mi.Point, mi.FsType, mi.Source, desc)
		default:
			return vh.Violf("C05:host-mount-visible", "mount table contains %s (%s from %s, %s) which is not configured; %s", mi.Point, mi.FsType, mi.Source, mi.Opts, desc)
		}
	}
	nro, nrw, nested := 0, 0, false
	for _, e := range exps {
		if !e.present {
			continue
		}
		if e.writable {
			nrw++
		} else if strings.HasPrefix(e.m.Kind, "bind") {
			nro++
		}
		if strings.Contains(e.m.Target, "/") || e.isFile {
			nested = true
		}
	}
	nt := nro >= 1 && nrw >= 1 && nested
	var classes []string
	classes = append(classes, "impl="+c.Impl)
	if real == 0 {
		classes = append(classes, "nothing-left-after-filtering:"+c.Impl)
	}
	if c.Unfiltered {
		classes = append(classes, "table-handed-over-unfiltered")
	}
	for _, e := range exps {
		classes = append(classes, "kind="+e.m.Kind)
	}
	if len(c.Masks) > 0 {
		classes = append(classes, fmt.Sprintf("masks(devnull=%v)", c.DevNull))
	}
	rec.Case(c, nt, dedup(classes)...)
	rec.Evals(len(refs))
	if nt && rec.WantSample() {
		rec.Sample(c)
	}
	return nil
}

func isMaskPoint(p string, masks []string) bool {
	for _, m := range masks {
		if p == m {
			return true
		}
	}
	return false
}

func keys(m map[string]bool) []string {
	var out []string
	for k := range m {
		out = append(out, k)
	}
	sort.Strings(out)
	return out
}

const c05Rule = "case = mount table of 0..7 entries (one in six: nothing left once entries with a missing source are dropped; container: one in four handed over unfiltered) (read-only / writable binds of directories and of single files, tmpfs with and without size, proc ro/rw, nested targets inside tmpfs and inside binds, a bind whose source does not exist and must be filtered) over generated host source trees plus a host secret outside every source; for the container additionally symlinks, mask paths (file, directory, missing), with/without /dev/null, with/without an InitCommand; binds through Builder.WithBind or as hand-written mount.Mount records with other valid flag words; run through unshare.Runner (raw in-child mount sequence) or container.Builder; " +
	"oracle = the probe's results of mkdir/create/symlink/mknod/open-for-write/truncate/chmod/unlink on the root and on every mount (EROFS unless declared writable), effects in the bind sources on the host, a recursive listing of / and /../.. (only configured top-level names, the secret nowhere), /old_root gone, and /proc/<pid>/mountinfo read from the host (root ro tmpfs + exactly the configured entries, ro/rw as declared); non-trivial = >=1 read-only bind, >=1 writable entry and a nested or file target"

func TestC05Unshare(t *testing.T) { c05Test(t, "unshare") }

func TestC05Container(t *testing.T) { c05Test(t, "container") }

func c05Test(t *testing.T, impl string) {
	rec := vh.NewRecorder(t, "C05", "exploration", c05Rule)
	dir, err := vh.ScratchDir("c05")
	if err != nil {
		t.Fatalf("INFRA: %v", err)
	}
	defer os.RemoveAll(dir)
	dir, _ = filepath.EvalSymlinks(dir)
	os.Chmod(dir, 0o755)
	vh.Check(t, rec, func(rt *rapid.T) c05Case {
		c := c05GenCase(rt)
		c.Impl = impl
		if impl != "container" {
			c.Links, c.Masks = nil, nil
		}
		return c
	}, func(c c05Case) error { return c05Run(c, dir, rec) })
}

package checks

// C02 — the file policy is consulted about the object the kernel will really touch.
// A generated forest (dirs, files, symlink chains) is built on disk; a vprobe script issues traced path syscalls
// under the real ptrace.Runner; every call under test is answered "ban" so the forest never changes. The oracle
// is the kernel's own resolver (open O_PATH + readlink /proc/self/fd) applied to the same (base directory, pathname).

import (
	"fmt"
	"os"
	"path/filepath"
	"sort"
	"strings"
	"sync"
	"syscall"
	"testing"

	"github.com/criyle/go-sandbox/pkg/seccomp/libseccomp"
	"github.com/criyle/go-sandbox/ptracer"
	"golang.org/x/sys/unix"
	"pgregory.net/rapid"

	"verif/internal/probe"
	"verif/internal/vh"
)

type c02Node struct {
	Path   string // relative to the forest root
	Kind   string // dir | file | link
	Target string // link target; "{R}" stands for the forest root
}

type c02Dirfd struct {
	Enc  string // cwd-100 | cwd-zext | cwd-garbage | fd | fd-garbage
	Slot int    // dirfd slot (fd number 100+Slot) for fd encodings
}

type c02Op struct {
	Kind   string // chdir | fchdir | opendir | openfile | call
	Slot   int    // for opendir/openfile/fchdir
	Sys    string
	D1, D2 c02Dirfd
	P1, P2 string // pathnames; "{R}" stands for the forest root
	Flags  uint64 // open flags / at-flags
	Hi     uint64 // garbage for the upper half of int-typed registers (flags)
	Res    uint64 // openat2: open_how.resolve (RESOLVE_* bits change what the kernel resolves to)
	Place  string // plain | pend | cross | wo | wospan : where the pathname string lives in the tracee (wo: a page mapped PROT_WRITE only)
}

type c02Case struct {
	Nodes []c02Node
	Ops   []c02Op
}

// ---- model of the forest (generation guidance only; the kernel is the oracle) ------------------

type c02Model struct {
	nodes map[string]c02Node // by relative path; "" is the root dir
}

func newC02Model(nodes []c02Node) *c02Model {
	m := &c02Model{nodes: map[string]c02Node{"": {Path: "", Kind: "dir"}}}
	for _, n := range nodes {
		m.nodes[n.Path] = n
	}
	return m
}

func (m *c02Model) children(dir string) []string {
	var out []string
	for p := range m.nodes {
		if p == "" {
			continue
		}
		if filepath.Dir(p) == dir || (dir == "" && !strings.Contains(p, "/")) {
			out = append(out, filepath.Base(p))
		}
	}
	sort.Strings(out)
	return out
}

// walk resolves path (relative to dir, or "{R}/..." absolute inside the forest) in the model; returns the
// canonical relative path and whether it is a directory. ok=false when it leaves the forest or does not resolve.
func (m *c02Model) walk(dir, path string, depth int) (string, bool, bool) {
	if depth > 40 {
		return "", false, false
	}
	cur := dir
	if strings.HasPrefix(path, "{R}") {
		cur = ""
		path = strings.TrimPrefix(path, "{R}")
	} else if strings.HasPrefix(path, "/") {
		return "", false, false
	}
	parts := strings.Split(path, "/")
	for i, part := range parts {
		switch part {
		case "", ".":
			continue
		case "..":
			if cur == "" {
				return "", false, false
			}
			cur = filepath.Dir(cur)
			if cur == "." {
				cur = ""
			}
			continue
		}
		n, ok := m.nodes[filepath.Join(cur, part)]
		if !ok {
			return "", false, false
		}
		switch n.Kind {
		case "dir":
			cur = n.Path
		case "file":
			if i != len(parts)-1 {
				return "", false, false
			}
			return n.Path, false, true
		case "link":
			rest := strings.Join(parts[i+1:], "/")
			t := n.Target
			if rest != "" {
				t = t + "/" + rest
			}
			return m.walk(cur, t, depth+1)
		}
	}
	return cur, true, true
}

// ---- generator ---------------------------------------------------------------------------------

var c02Calls = []string{"open", "openat", "openat2", "stat", "lstat", "newfstatat", "statx", "access", "faccessat", "faccessat2",
	"readlink", "readlinkat", "unlink", "unlinkat", "rename", "renameat", "renameat2", "linkat", "symlinkat", "mkdirat", "mknodat",
	"chmod", "fchmodat", "fchmodat2", "execve", "execveat"}

func c02HasDirfd(sys string) bool {
	switch sys {
	case "open", "stat", "lstat", "access", "readlink", "unlink", "rename", "chmod", "execve":
		return false
	}
	return true
}

func c02TwoPaths(sys string) bool {
	switch sys {
	case "rename", "renameat", "renameat2", "linkat":
		return true
	}
	return false
}

func c02GenCase(rt *rapid.T) c02Case {
	var c c02Case
	// forest
	dirs := []string{""}
	names := []string{"a", "b", "c", "d", "e", "f", "g", "h", "k", "m", "n", "p"}
	nn := rapid.IntRange(3, 12).Draw(rt, "nnodes")
	used := map[string]bool{}
	var all []c02Node
	for i := 0; i < nn; i++ {
		parent := rapid.SampledFrom(dirs).Draw(rt, "parent")
		if strings.Count(parent, "/") >= 3 {
			parent = ""
		}
		name := names[i]
		p := filepath.Join(parent, name)
		if used[p] {
			continue
		}
		used[p] = true
		kind := rapid.SampledFrom([]string{"dir", "dir", "file", "file", "link", "link", "link"}).Draw(rt, "kind")
		n := c02Node{Path: p, Kind: kind}
		if kind == "dir" {
			dirs = append(dirs, p)
		}
		if kind == "link" {
			// target: an existing node (or dangling), spelled relative or absolute, possibly decorated
			var tgt string
			if len(all) > 0 && rapid.IntRange(0, 9).Draw(rt, "dangling") != 0 {
				tn := rapid.SampledFrom(all).Draw(rt, "tnode")
				if rapid.Bool().Draw(rt, "abs") {
					tgt = "{R}/" + tn.Path
				} else {
					rel, err := filepath.Rel("/"+parent, "/"+tn.Path)
					if err != nil {
						rel = tn.Path
					}
					tgt = rel
				}
			} else {
				tgt = rapid.SampledFrom([]string{"nowhere", "../nowhere", "{R}/nowhere", "..", ".", "../.."}).Draw(rt, "dtarget")
			}
			switch rapid.IntRange(0, 8).Draw(rt, "decor") {
			case 0:
				tgt = "./" + tgt
			case 1:
				tgt = tgt + "/"
			case 2:
				tgt = tgt + "/."
			case 3:
				if !strings.HasPrefix(tgt, "{R}") {
					tgt = "x/../" + tgt // x need not exist for the lexical reading, but must for the kernel
				}
			case 4:
				// a long link text (a link text may be up to PATH_MAX-1 bytes, far more than NAME_MAX): "./" padding keeps
				// the meaning and moves the real target beyond byte 255 / 256 / 1024 / 4000
				k := rapid.SampledFrom([]int{120, 125, 126, 127, 128, 129, 130, 200, 511, 512, 1000, 1900}).Draw(rt, "longtext")
				pad := strings.Repeat("./", k)
				if strings.HasPrefix(tgt, "{R}/") {
					tgt = "{R}/" + pad + tgt[4:]
				} else {
					tgt = pad + tgt
				}
			}
			n.Target = tgt
		}
		all = append(all, n)
	}
	// sometimes a long symlink chain: the kernel follows at most 40 links per resolution
	chain := 0
	if rapid.IntRange(0, 5).Draw(rt, "chain") == 0 {
		chain = rapid.SampledFrom([]int{38, 39, 40, 41}).Draw(rt, "chainlen")
		all = append(all, c02Node{Path: "chainend", Kind: "file"})
		for i := 0; i < chain; i++ {
			t := fmt.Sprintf("ch%d", i+1)
			if i == chain-1 {
				t = "chainend"
			}
			all = append(all, c02Node{Path: fmt.Sprintf("ch%d", i), Kind: "link", Target: t})
		}
	}
	// sometimes a link whose *text* has ".." after a symlink: "jump/../data" means <where jump leads>/../data to the
	// kernel, and plain "data" to anybody who cleans the text first
	jump := rapid.IntRange(0, 3).Draw(rt, "jump") == 0
	if jump {
		jd := rapid.SampledFrom(dirs).Draw(rt, "jumpdir") // the links live here
		up := strings.Repeat("../", strings.Count(jd, "/")+map[bool]int{true: 0, false: 1}[jd == ""])
		all = append(all,
			c02Node{Path: "jdir", Kind: "dir"}, c02Node{Path: "jdir/in", Kind: "dir"}, c02Node{Path: "jdir/data", Kind: "file"},
			c02Node{Path: filepath.Join(jd, "data"), Kind: "file"},
			c02Node{Path: filepath.Join(jd, "jump"), Kind: "link", Target: up + "jdir/in"},
			c02Node{Path: filepath.Join(jd, "evil"), Kind: "link", Target: rapid.SampledFrom([]string{"jump/../data", "./jump/../data", "jump/.././data", "jump/../../jdir/data"}).Draw(rt, "eviltext")})
		dirs = append(dirs, "jdir", "jdir/in")
		c.Ops = append(c.Ops, c02Op{Kind: "call", Sys: "open", D1: c02Dirfd{Enc: "cwd-100"}, P1: "{R}/" + filepath.Join(jd, "evil"), Flags: 0, Place: "plain"},
			c02Op{Kind: "call", Sys: "stat", D1: c02Dirfd{Enc: "cwd-100"}, P1: "{R}/" + filepath.Join(jd, "evil"), Place: "plain"})
	}
	c.Nodes = all
	m := newC02Model(all)

	// path grammar, guided by the model so most paths resolve
	genPath := func(label string, startDir string, abs bool) string {
		var comps []string
		cur, curOK := startDir, true
		n := rapid.IntRange(1, 6).Draw(rt, label+"len")
		for i := 0; i < n; i++ {
			k := rapid.IntRange(0, 19).Draw(rt, label+"k")
			var comp string
			kids := []string{}
			if curOK {
				kids = m.children(cur)
			}
			switch {
			case k < 12 && len(kids) > 0:
				comp = rapid.SampledFrom(kids).Draw(rt, label+"kid")
			case k < 14:
				comp = ".."
			case k == 14:
				comp = "."
			case k == 15:
				comp = ""
			case k < 18 && len(all) > 0:
				comp = filepath.Base(rapid.SampledFrom(all).Draw(rt, label+"any").Path)
			default:
				comp = "new" + fmt.Sprint(rapid.IntRange(0, 2).Draw(rt, label+"new"))
			}
			comps = append(comps, comp)
			if curOK {
				p, isDir, ok := m.walk(cur, comp, 0)
				if ok && isDir {
					cur = p
				} else {
					curOK = false
					if !ok || !isDir {
						if rapid.IntRange(0, 2).Draw(rt, label+"stop") != 0 {
							break
						}
					}
				}
			}
		}
		p := strings.Join(comps, "/")
		if rapid.IntRange(0, 9).Draw(rt, label+"trail") == 0 {
			p += "/"
		}
		if abs {
			return "{R}/" + p
		}
		if p == "" {
			p = "."
		}
		return p
	}

	// ops
	cwd := ""
	slots := map[int]string{} // slot -> model dir (or file path for openfile)
	slotIsFile := map[int]bool{}
	nops := rapid.IntRange(4, 16).Draw(rt, "nops")
	if chain > 0 {
		// calls that walk the whole chain, absolute and relative
		c.Ops = append(c.Ops, c02Op{Kind: "call", Sys: "open", D1: c02Dirfd{Enc: "cwd-100"}, P1: "{R}/ch0", Flags: 1, Place: "plain"})
		c.Ops = append(c.Ops, c02Op{Kind: "call", Sys: "stat", D1: c02Dirfd{Enc: "cwd-100"}, P1: "ch0", Place: "plain"})
		c.Ops = append(c.Ops, c02Op{Kind: "call", Sys: "openat", D1: c02Dirfd{Enc: "cwd-zext"}, P1: "ch1", Flags: 0, Place: "plain"})
	}
	for i := 0; i < nops; i++ {
		k := rapid.IntRange(0, 19).Draw(rt, "opk")
		switch {
		case k == 0:
			d := rapid.SampledFrom(dirs).Draw(rt, "chdir")
			c.Ops = append(c.Ops, c02Op{Kind: "chdir", P1: "{R}/" + d})
			cwd = d
		case k <= 2 && len(slots) < 4:
			slot := len(slots)
			if rapid.IntRange(0, 3).Draw(rt, "slotfile") == 0 {
				var files []string
				for _, n := range all {
					if n.Kind == "file" {
						files = append(files, n.Path)
					}
				}
				if len(files) > 0 {
					f := rapid.SampledFrom(files).Draw(rt, "sfile")
					c.Ops = append(c.Ops, c02Op{Kind: "openfile", Slot: slot, P1: "{R}/" + f})
					slots[slot] = f
					slotIsFile[slot] = true
					continue
				}
			}
			d := rapid.SampledFrom(dirs).Draw(rt, "sdir")
			c.Ops = append(c.Ops, c02Op{Kind: "opendir", Slot: slot, P1: "{R}/" + d})
			slots[slot] = d
		case k == 3 && len(slots) > 0:
			var ds []int
			for s := range slots {
				if !slotIsFile[s] {
					ds = append(ds, s)
				}
			}
			sort.Ints(ds)
			if len(ds) > 0 {
				s := rapid.SampledFrom(ds).Draw(rt, "fchdir")
				c.Ops = append(c.Ops, c02Op{Kind: "fchdir", Slot: s})
				cwd = slots[s]
			}
		default:
			op := c02Op{Kind: "call", Sys: rapid.SampledFrom(c02Calls).Draw(rt, "sys")}
			if k >= 18 {
				op.Sys = "openat2" // the only call whose resolution rules are themselves an argument
			}
			genD := func(label string) (c02Dirfd, string) {
				if !c02HasDirfd(op.Sys) {
					return c02Dirfd{Enc: "cwd-100"}, cwd
				}
				var ds []int
				for s := range slots {
					ds = append(ds, s)
				}
				sort.Ints(ds)
				e := rapid.IntRange(0, 9).Draw(rt, label+"enc")
				switch {
				case e <= 2 || len(ds) == 0:
					return c02Dirfd{Enc: []string{"cwd-100", "cwd-zext", "cwd-garbage"}[e%3]}, cwd
				case e <= 7:
					s := rapid.SampledFrom(ds).Draw(rt, label+"slot")
					return c02Dirfd{Enc: "fd", Slot: s}, slots[s]
				default:
					s := rapid.SampledFrom(ds).Draw(rt, label+"slot")
					return c02Dirfd{Enc: "fd-garbage", Slot: s}, slots[s]
				}
			}
			genP := func(label string, base string) string {
				start := rapid.IntRange(0, 9).Draw(rt, label+"start")
				switch {
				case start <= 2:
					return genPath(label, "", true)
				case start == 3:
					// /proc aliases
					switch rapid.IntRange(0, 3).Draw(rt, label+"alias") {
					case 0:
						return "/proc/self/cwd/" + genPath(label, cwd, false)
					case 1:
						return "/proc/self/root" + genPath(label, "", true)
					case 2:
						return "/proc/thread-self/cwd/" + genPath(label, cwd, false)
					default:
						var ds []int
						for s := range slots {
							if !slotIsFile[s] {
								ds = append(ds, s)
							}
						}
						sort.Ints(ds)
						if len(ds) == 0 {
							return "/proc/self/cwd/" + genPath(label, cwd, false)
						}
						s := rapid.SampledFrom(ds).Draw(rt, label+"aslot")
						return fmt.Sprintf("/proc/self/fd/%d/", 100+s) + genPath(label, slots[s], false)
					}
				default:
					return genPath(label, base, false)
				}
			}
			var base1, base2 string
			op.D1, base1 = genD("d1")
			if slotIsFile[op.D1.Slot] && (op.D1.Enc == "fd" || op.D1.Enc == "fd-garbage") {
				// a file descriptor as dirfd only makes sense with AT_EMPTY_PATH
				if op.Sys == "execveat" || op.Sys == "newfstatat" || op.Sys == "statx" {
					op.P1 = ""
					op.Flags = 0x1000 // AT_EMPTY_PATH
					c.Ops = append(c.Ops, op)
					continue
				}
				base1 = ""
			}
			op.P1 = genP("p1", base1)
			// the kernel ignores dirfd for an absolute name: a number that is not open (stale, -1, -EBADF) changes nothing
			badOK := func(p string) bool {
				return c02HasDirfd(op.Sys) && op.Sys != "openat2" && strings.HasPrefix(p, "{R}/") && !strings.Contains(p, "/proc/")
			}
			if badOK(op.P1) && rapid.IntRange(0, 3).Draw(rt, "badfd1") == 0 {
				op.D1 = c02Dirfd{Enc: "bad", Slot: rapid.IntRange(0, 3).Draw(rt, "badfd1v")}
			}
			if c02TwoPaths(op.Sys) {
				op.D2, base2 = genD("d2")
				if slotIsFile[op.D2.Slot] && (op.D2.Enc == "fd" || op.D2.Enc == "fd-garbage") {
					base2 = ""
				}
				op.P2 = genP("p2", base2)
				if op.Sys != "symlinkat" && badOK(op.P2) && rapid.IntRange(0, 3).Draw(rt, "badfd2") == 0 {
					op.D2 = c02Dirfd{Enc: "bad", Slot: rapid.IntRange(0, 3).Draw(rt, "badfd2v")}
				}
			}
			if op.Sys == "symlinkat" {
				op.P2 = rapid.SampledFrom([]string{"tgt", "../x", "/etc/passwd", "{R}/a"}).Draw(rt, "symtarget")
			}
			switch op.Sys {
			case "open", "openat", "openat2":
				acc := rapid.SampledFrom([]uint64{0, 0, 0, 1, 2, 3}).Draw(rt, "acc")
				var fl uint64
				for _, f := range []uint64{unix.O_CREAT, unix.O_EXCL, unix.O_TRUNC, unix.O_APPEND, unix.O_DIRECTORY, unix.O_NOFOLLOW, unix.O_PATH, unix.O_CLOEXEC, unix.O_NONBLOCK} {
					if rapid.IntRange(0, 5).Draw(rt, "flag") == 0 {
						fl |= f
					}
				}
				if rapid.IntRange(0, 15).Draw(rt, "tmpfile") == 0 {
					fl |= unix.O_TMPFILE
					acc = 2
				}
				op.Flags = acc | fl
				if op.Sys != "openat2" && rapid.IntRange(0, 3).Draw(rt, "hi") == 0 {
					op.Hi = uint64(rapid.Uint32().Draw(rt, "hibits")) << 32
				}
				if op.Sys == "openat2" && rapid.IntRange(0, 1).Draw(rt, "res") == 0 {
					op.Res = rapid.SampledFrom([]uint64{unix.RESOLVE_IN_ROOT, unix.RESOLVE_IN_ROOT, unix.RESOLVE_BENEATH, unix.RESOLVE_NO_SYMLINKS, unix.RESOLVE_NO_MAGICLINKS, unix.RESOLVE_NO_XDEV, unix.RESOLVE_IN_ROOT | unix.RESOLVE_NO_MAGICLINKS}).Draw(rt, "resolve")
					if op.Res&unix.RESOLVE_IN_ROOT != 0 && !slotIsFile[op.D1.Slot] {
						// names that only mean something because dirfd is the root of the lookup
						switch rapid.IntRange(0, 3).Draw(rt, "inroot") {
						case 0:
							op.P1 = "/" + genPath("p1r", base1, false)
						case 1:
							op.P1 = strings.Repeat("../", rapid.IntRange(1, 4).Draw(rt, "updots")) + genPath("p1r", base1, false)
						case 2:
							op.P1 = genPath("p1r", base1, false) + "/" + strings.Repeat("../", rapid.IntRange(1, 6).Draw(rt, "updots")) + genPath("p1s", base1, false)
						}
					}
				}
			case "newfstatat", "statx", "faccessat2", "fchmodat2":
				if rapid.IntRange(0, 2).Draw(rt, "nofollow") == 0 {
					op.Flags = 0x100 // AT_SYMLINK_NOFOLLOW
				}
			case "linkat":
				if rapid.IntRange(0, 2).Draw(rt, "follow") == 0 {
					op.Flags = 0x400 // AT_SYMLINK_FOLLOW
				}
			case "unlinkat":
				if rapid.IntRange(0, 2).Draw(rt, "rmdir") == 0 {
					op.Flags = 0x200 // AT_REMOVEDIR
				}
			}
			op.Place = rapid.SampledFrom([]string{"plain", "plain", "plain", "pend", "cross", "wo", "wospan"}).Draw(rt, "place")
			c.Ops = append(c.Ops, op)
		}
	}
	return c
}

// ---- kernel oracle -----------------------------------------------------------------------------

func fdPath(fd int) string {
	s, err := os.Readlink(fmt.Sprintf("/proc/self/fd/%d", fd))
	if err != nil {
		return ""
	}
	return s
}

// kresolve asks the kernel where (base, path) leads. base is a canonical absolute directory path ("" = none).
// follow: whether a final symlink is followed. Returns "" when the kernel would not reach any object/creation point.
func kresolve(base, path string, follow bool) string {
	full := path
	if !strings.HasPrefix(path, "/") {
		if base == "" {
			return ""
		}
		full = base + "/" + path
	}
	for depth := 0; depth < 42; depth++ {
		flags := unix.O_PATH | unix.O_CLOEXEC
		if !follow {
			flags |= unix.O_NOFOLLOW
		}
		fd, err := unix.Open(full, flags, 0)
		if err == nil {
			p := fdPath(fd)
			unix.Close(fd)
			return p
		}
		if err != unix.ENOENT {
			return ""
		}
		if strings.HasSuffix(full, "/") {
			return ""
		}
		i := strings.LastIndex(full, "/")
		parent, last := full[:i+1], full[i+1:]
		if last == "." || last == ".." || last == "" {
			return ""
		}
		pfd, err := unix.Open(parent, unix.O_PATH|unix.O_DIRECTORY|unix.O_CLOEXEC, 0)
		if err != nil {
			return ""
		}
		pcanon := fdPath(pfd)
		unix.Close(pfd)
		if pcanon == "" {
			return ""
		}
		cand := pcanon + "/" + last
		if pcanon == "/" {
			cand = "/" + last
		}
		var st unix.Stat_t
		if err := unix.Lstat(cand, &st); err == nil && st.Mode&unix.S_IFMT == unix.S_IFLNK && follow {
			t, err := os.Readlink(cand)
			if err != nil {
				return ""
			}
			if strings.HasPrefix(t, "/") {
				full = t
			} else {
				full = pcanon + "/" + t
			}
			continue
		}
		return cand
	}
	return ""
}

// kresolve2 resolves (base, path) like openat2 with the given RESOLVE_* bits does; "" unless the whole path resolves.
func kresolve2(base, path string, follow bool, resolve uint64) string {
	dfd := unix.AT_FDCWD
	if base != "" {
		d, err := unix.Open(base, unix.O_PATH|unix.O_DIRECTORY|unix.O_CLOEXEC, 0)
		if err != nil {
			return ""
		}
		defer unix.Close(d)
		dfd = d
	} else if !strings.HasPrefix(path, "/") {
		return ""
	}
	flags := uint64(unix.O_PATH | unix.O_CLOEXEC)
	if !follow {
		flags |= unix.O_NOFOLLOW
	}
	fd, err := unix.Openat2(dfd, path, &unix.OpenHow{Flags: flags, Resolve: resolve})
	if err != nil {
		return ""
	}
	defer unix.Close(fd)
	return fdPath(fd)
}

type c02Expect struct {
	Class   string   // read | write | stat | "" (unspecified)
	Accept  []string // acceptable canonical paths; empty = not asserted
	NT      bool
	Classes []string
}

func c02OpenClass(flags uint64) string {
	fl := uint32(flags) // the kernel takes an int
	acc := fl & unix.O_ACCMODE
	if fl&unix.O_PATH != 0 {
		return ""
	}
	if acc != unix.O_RDONLY || fl&unix.O_CREAT != 0 || fl&unix.O_TRUNC != 0 {
		return "write"
	}
	if fl&(unix.O_EXCL|unix.O_TMPFILE&^unix.O_DIRECTORY) != 0 {
		return ""
	}
	return "read"
}

// c02Follow says whether the call follows a final symlink (argument 1 / argument 2).
func c02Follow(op c02Op, second bool) bool {
	switch op.Sys {
	case "open", "openat", "openat2":
		fl := uint32(op.Flags)
		if fl&unix.O_NOFOLLOW != 0 {
			return false
		}
		if fl&unix.O_CREAT != 0 && fl&unix.O_EXCL != 0 {
			return false
		}
		return true
	case "stat", "access", "faccessat", "chmod", "fchmodat", "execve", "execveat":
		return true
	case "newfstatat", "statx", "faccessat2", "fchmodat2":
		return op.Flags&0x100 == 0
	case "linkat":
		return !second && op.Flags&0x400 != 0
	}
	return false // lstat readlink* unlink* rename* symlinkat mkdirat mknodat
}

func c02Class(op c02Op) string {
	switch op.Sys {
	case "open", "openat", "openat2":
		return c02OpenClass(op.Flags)
	case "stat", "lstat", "newfstatat", "statx", "access", "faccessat", "faccessat2":
		return "stat"
	case "readlink", "readlinkat", "execve", "execveat":
		return "read"
	}
	return "write"
}

// ---- running a case ----------------------------------------------------------------------------

const (
	atFdcwd64  = uint64(0xffffffffffffff9c)
	atFdcwdZx  = uint64(0x00000000ffffff9c)
	atFdcwdGar = uint64(0x1234abcdffffff9c)
)

func c02DirfdArg(d c02Dirfd) any {
	switch d.Enc {
	case "cwd-100":
		return atFdcwd64
	case "cwd-zext":
		return atFdcwdZx
	case "cwd-garbage":
		return atFdcwdGar
	case "fd":
		return 100 + d.Slot
	case "bad":
		return []uint64{777, 0xffffffffffffffff, 0x7fffffff, 0xfffffffffffffff7}[d.Slot%4]
	default:
		return uint64(0x7eadbeef00000000) + uint64(100+d.Slot)
	}
}

var c02Trace = append([]string{"getpriority"}, c02Calls...)

func c02Run(c c02Case, root string, rec *vh.Recorder) error {
	R := func(s string) string { return strings.ReplaceAll(s, "{R}", root) }
	// rebuild the forest
	ents, _ := os.ReadDir(root)
	for _, e := range ents {
		os.RemoveAll(filepath.Join(root, e.Name()))
	}
	for _, n := range c.Nodes {
		p := filepath.Join(root, n.Path)
		var err error
		switch n.Kind {
		case "dir":
			err = os.Mkdir(p, 0o755)
		case "file":
			err = os.WriteFile(p, []byte("#!/bin/true\n"), 0o755)
		case "link":
			err = os.Symlink(R(n.Target), p)
		}
		if err != nil {
			return vh.Infraf("forest: %v", err)
		}
	}

	// script + static expectations
	var s probe.Script
	type plan struct {
		setup  bool
		expect []c02Expect // per path argument
		op     c02Op
	}
	var plans []plan // indexed by marker count - 1
	cwd := root
	slot := map[int]string{} // canonical path of the object behind fd 100+slot
	marker := func() { s.Sys(sysNr["getpriority"], 0, 0) }
	strArg := func(p string, place string) string {
		switch place {
		case "pend":
			return fmt.Sprintf("!pend=%d", s.StrIdx(p))
		case "cross":
			if len(p) >= 2 {
				return fmt.Sprintf("!cross=%d", s.StrIdx(p))
			}
		case "wo":
			return fmt.Sprintf("!wo=%d", s.StrIdx(p))
		case "wospan":
			if len(p) >= 2 {
				return fmt.Sprintf("!wospan=%d", s.StrIdx(p))
			}
		}
		return s.Str(p)
	}
	substAlias := func(p string) (string, bool) {
		for _, pre := range []string{"/proc/self/", "/proc/thread-self/"} {
			if strings.HasPrefix(p, pre) {
				rest := strings.TrimPrefix(p, pre)
				switch {
				case strings.HasPrefix(rest, "cwd/"):
					return cwd + "/" + strings.TrimPrefix(rest, "cwd/"), true
				case strings.HasPrefix(rest, "root/"):
					return "/" + strings.TrimPrefix(rest, "root/"), true
				case strings.HasPrefix(rest, "fd/"):
					r2 := strings.TrimPrefix(rest, "fd/")
					i := strings.Index(r2, "/")
					if i < 0 {
						return "", true
					}
					var n int
					fmt.Sscanf(r2[:i], "%d", &n)
					b, ok := slot[n-100]
					if !ok {
						return "", true
					}
					return b + "/" + r2[i+1:], true
				}
			}
		}
		return p, false
	}
	expectFor := func(op c02Op, d c02Dirfd, p string, second bool) c02Expect {
		var e c02Expect
		e.Class = c02Class(op)
		base := cwd
		viaFd := false
		if c02HasDirfd(op.Sys) && (d.Enc == "fd" || d.Enc == "fd-garbage") {
			base = slot[d.Slot]
			viaFd = true
		}
		path := R(p)
		emptyPath := op.Flags&0x1000 != 0 && path == "" && (op.Sys == "execveat" || op.Sys == "newfstatat" || op.Sys == "statx")
		if emptyPath {
			if base != "" {
				e.Accept = []string{base}
			}
			e.Classes = append(e.Classes, "at-empty-path")
			e.NT = true
			return e
		}
		if path == "" {
			return e
		}
		alias := false
		path, alias = substAlias(path)
		if path == "" {
			return e
		}
		if alias {
			e.Classes = append(e.Classes, "proc-alias")
			// the alias prefix is substituted textually, but for the kernel /proc/self and the magic link are two more
			// symlinks of the 40 it follows per resolution: with a 38..41-link chain behind it the budget differs => not judged
			for _, n := range c.Nodes {
				if n.Path == "chainend" && strings.Contains(path, "/ch") {
					e.Classes = append(e.Classes, "alias+long-chain(not asserted)")
					return e
				}
			}
		}
		follow := c02Follow(op, second)
		kres := kresolve
		if op.Sys == "openat2" && op.Res != 0 {
			// the kernel's own resolution under the same RESOLVE_* bits; only complete resolutions are asserted
			e.Classes = append(e.Classes, fmt.Sprintf("openat2-resolve=%#x", op.Res))
			if alias {
				return e
			}
			kres = func(base, path string, follow bool) string { return kresolve2(base, path, follow, op.Res) }
			if g0, g1 := kresolve(base, path, follow), kres(base, path, follow); g1 != "" && g0 != g1 {
				e.NT = true
				e.Classes = append(e.Classes, "resolve-bits-change-the-object")
			}
		}
		got := kres(base, path, follow)
		if got != "" {
			e.Accept = append(e.Accept, got)
			if !follow {
				var st unix.Stat_t
				if err := unix.Lstat(got, &st); err == nil && st.Mode&unix.S_IFMT == unix.S_IFLNK {
					// a no-follow call on a final symlink: the statement is ambiguous (DESIGN.md C02 (ii)); accept the
					// link's own path and its followed target; when the target does not resolve nothing is asserted
					if g2 := kres(base, path, true); g2 != "" {
						e.Accept = append(e.Accept, g2)
						e.Classes = append(e.Classes, "nofollow-final-symlink(both accepted)")
					} else {
						e.Accept = nil
						e.Classes = append(e.Classes, "nofollow-final-symlink-unresolvable(not asserted)")
					}
				}
			}
		} else {
			e.Classes = append(e.Classes, "unresolvable(not asserted)")
		}
		// classification for evidence
		full := path
		if !strings.HasPrefix(path, "/") {
			full = base + "/" + path
		}
		lex := filepath.Clean(full)
		if got != "" && got != lex {
			e.NT = true
			e.Classes = append(e.Classes, "kernel!=lexical")
		}
		if d.Enc != "cwd-100" && d.Enc != "fd" && c02HasDirfd(op.Sys) {
			e.NT = true
			e.Classes = append(e.Classes, "dirfd-enc="+d.Enc)
		}
		if viaFd && !strings.HasPrefix(path, "/") {
			e.Classes = append(e.Classes, "dirfd-relative")
		}
		if strings.HasPrefix(path, "/") {
			e.Classes = append(e.Classes, "absolute")
		} else if !viaFd {
			e.Classes = append(e.Classes, "cwd-relative")
		}
		return e
	}

	for _, op := range c.Ops {
		switch op.Kind {
		case "chdir":
			marker()
			s.Sys(sysNr["chdir"], s.Str(R(op.P1)))
			if t := kresolve(cwd, R(op.P1), true); t != "" {
				if fi, err := os.Stat(t); err == nil && fi.IsDir() {
					cwd = t
				}
			}
			plans = append(plans, plan{setup: true, op: op})
		case "fchdir":
			marker()
			s.Sys(sysNr["fchdir"], 100+op.Slot)
			if b, ok := slot[op.Slot]; ok {
				cwd = b
			}
			plans = append(plans, plan{setup: true, op: op})
		case "opendir", "openfile":
			marker()
			fl := unix.O_RDONLY
			if op.Kind == "opendir" {
				fl |= unix.O_DIRECTORY
			}
			k := s.Sys(sysNr["openat"], atFdcwd64, s.Str(R(op.P1)), fl, 0)
			s.Sys(sysNr["dup2"], probe.Ref(k), 100+op.Slot)
			s.Sys(sysNr["close"], probe.Ref(k))
			slot[op.Slot] = kresolve(cwd, R(op.P1), true)
			plans = append(plans, plan{setup: true, op: op})
		case "call":
			marker()
			pl := plan{op: op}
			pl.expect = append(pl.expect, expectFor(op, op.D1, op.P1, false))
			nr := sysNr[op.Sys]
			p1 := strArg(R(op.P1), op.Place)
			fl := op.Flags | op.Hi
			switch op.Sys {
			case "open":
				s.Sys(nr, p1, fl, 0o644)
			case "openat":
				s.Sys(nr, c02DirfdArg(op.D1), p1, fl, 0o644)
			case "openat2":
				s.Sys(nr, c02DirfdArg(op.D1), p1, fmt.Sprintf("!how=%d,%d,%d", op.Flags, c02HowMode(op.Flags), op.Res), 24)
			case "stat", "lstat":
				s.Sys(nr, p1, "!buf")
			case "newfstatat":
				s.Sys(nr, c02DirfdArg(op.D1), p1, "!buf", op.Flags)
			case "statx":
				s.Sys(nr, c02DirfdArg(op.D1), p1, op.Flags, 0x7ff, "!buf")
			case "access":
				s.Sys(nr, p1, 0)
			case "faccessat":
				s.Sys(nr, c02DirfdArg(op.D1), p1, 0)
			case "faccessat2":
				s.Sys(nr, c02DirfdArg(op.D1), p1, 0, op.Flags)
			case "readlink":
				s.Sys(nr, p1, "!buf", 256)
			case "readlinkat":
				s.Sys(nr, c02DirfdArg(op.D1), p1, "!buf", 256)
			case "unlink":
				s.Sys(nr, p1)
			case "unlinkat":
				s.Sys(nr, c02DirfdArg(op.D1), p1, op.Flags)
			case "rename":
				pl.expect = append(pl.expect, expectFor(op, op.D2, op.P2, true))
				s.Sys(nr, p1, strArg(R(op.P2), "plain"))
			case "renameat":
				pl.expect = append(pl.expect, expectFor(op, op.D2, op.P2, true))
				s.Sys(nr, c02DirfdArg(op.D1), p1, c02DirfdArg(op.D2), s.Str(R(op.P2)))
			case "renameat2":
				pl.expect = append(pl.expect, expectFor(op, op.D2, op.P2, true))
				s.Sys(nr, c02DirfdArg(op.D1), p1, c02DirfdArg(op.D2), s.Str(R(op.P2)), 0)
			case "linkat":
				pl.expect = append(pl.expect, expectFor(op, op.D2, op.P2, true))
				s.Sys(nr, c02DirfdArg(op.D1), p1, c02DirfdArg(op.D2), s.Str(R(op.P2)), op.Flags)
			case "symlinkat":
				// symlinkat(target, newdirfd, linkpath): the policy is about linkpath (= P1 relative to D1)
				s.Sys(nr, s.Str(R(op.P2)), c02DirfdArg(op.D1), p1)
			case "mkdirat":
				s.Sys(nr, c02DirfdArg(op.D1), p1, 0o755)
			case "mknodat":
				s.Sys(nr, c02DirfdArg(op.D1), p1, 0o100644, 0)
			case "chmod":
				s.Sys(nr, p1, 0o600)
			case "fchmodat":
				s.Sys(nr, c02DirfdArg(op.D1), p1, 0o600)
			case "fchmodat2":
				s.Sys(nr, c02DirfdArg(op.D1), p1, 0o600, op.Flags)
			case "execve":
				s.Sys(nr, p1, 0, 0)
			case "execveat":
				s.Sys(nr, c02DirfdArg(op.D1), p1, 0, 0, op.Flags)
			}
			plans = append(plans, pl)
		}
	}
	marker() // closing marker so the last group is delimited too
	s.Add("exit:0")

	allow := append([]string{"chdir", "fchdir"}, probeBaseAllow...)
	filter, err := buildFilter(allow, c02Trace, libseccomp.ActionKill)
	if err != nil {
		return vh.Infraf("filter: %v", err)
	}
	h := &recHandler{Marker: "getpriority"}
	h.Decide = func(r hRecord) ptracer.TraceAction {
		k := r.Op - 1
		if k >= 0 && k < len(plans) && plans[k].setup {
			return ptracer.TraceAllow
		}
		return ptracer.TraceBan
	}
	tr, err := runTraced(tracedOpts{Script: &s, Filter: filter, Handler: h, WorkDir: root})
	if err != nil {
		return err
	}
	if tr.Hung {
		killTagged(tr.Tag)
		return vh.Infraf("C02 run hung")
	}
	if tr.Result.Status != 1 /* Normal */ {
		// the run did not complete normally: the runner broke on the program's account. That is C15's subject;
		// here it only prevents the comparison. Known C15 signatures are routed around.
		return vh.Violf("C02:run-aborted", "status %v error %q exit %d; ops=%d", tr.Result.Status, tr.Result.Error, tr.Result.ExitStatus, len(c.Ops))
	}
	if c02Debug {
		fmt.Printf("script: %q\nrecords: %+v\nreport: %s\n", s.Argv("t", 3), h.Records, tr.Report.Raw)
	}
	// group records by op
	groups := map[int][]hRecord{}
	for _, r := range h.Records {
		groups[r.Op-1] = append(groups[r.Op-1], r)
	}
	anyNT := false
	var classes []string
	for k, pl := range plans {
		if pl.setup {
			continue
		}
		g := groups[k]
		var paths []hRecord
		for _, r := range g {
			if r.Class == "syscall" {
				if r.Arg == "procfs-path" {
					paths = append(paths, r)
				}
				continue
			}
			paths = append(paths, r)
		}
		desc := fmt.Sprintf("op#%d %s d1=%+v p1=%q d2=%+v p2=%q flags=%#x place=%s", k, pl.op.Sys, pl.op.D1, R(pl.op.P1), pl.op.D2, R(pl.op.P2), pl.op.Flags|pl.op.Hi, pl.op.Place)
		if len(paths) != len(pl.expect) {
			// a kill/ban decision on the first of two paths legitimately hides nothing here: decisions are Ban and
			// combineTraceActions evaluates both; anything else is a mismatch in what the policy was asked
			return vh.Violf("C02:record-count", "%s: policy consulted %d times (%+v), expected %d", desc, len(paths), paths, len(pl.expect))
		}
		for i, e := range pl.expect {
			r := paths[i]
			classes = append(classes, e.Classes...)
			classes = append(classes, "sys="+pl.op.Sys)
			if e.NT {
				anyNT = true
			}
			if len(e.Accept) == 0 {
				continue
			}
			okPath := false
			for _, a := range e.Accept {
				if r.Arg == a {
					okPath = true
				}
			}
			if !okPath {
				key := "C02:wrong-path"
				switch {
				case r.Class == "syscall":
					key = "C02:routed-to-procfs-policy"
				case pl.op.Sys == "symlinkat":
					key = "C02:wrong-path/symlinkat-args"
				case (i == 0 && pl.op.D1.Enc != "cwd-100" && pl.op.D1.Enc != "fd") || (i == 1 && pl.op.D2.Enc != "cwd-100" && pl.op.D2.Enc != "fd"):
					key = "C02:wrong-path/dirfd-encoding"
				case r.Arg == filepath.Clean(r.Arg) && c02LexicalOf(pl.op, i, R, cwd) == r.Arg:
					key = "C02:wrong-path/lexical-dotdot"
				}
				return vh.Violf(key, "%s arg%d: policy was shown %s(%q); the kernel resolves to %q", desc, i+1, r.Class, r.Arg, e.Accept)
			}
			if e.Class != "" && r.Class != e.Class {
				return vh.Violf("C02:wrong-class", "%s arg%d: asked %s, must be %s (path %q)", desc, i+1, r.Class, e.Class, r.Arg)
			}
			if e.Class == "" {
				classes = append(classes, "open-class-unspecified")
			}
		}
	}
	for _, n := range c.Nodes {
		if n.Kind == "link" && len(n.Target) > 255 {
			classes = append(classes, "forest-has-link-text>255-bytes")
			break
		}
	}
	rec.Case(c, anyNT, dedup(classes)...)
	rec.Evals(len(plans))
	if anyNT && rec.WantSample() {
		rec.Sample(c)
	}
	return nil
}

func c02HowMode(flags uint64) uint64 {
	if flags&unix.O_CREAT != 0 || flags&unix.O_TMPFILE == unix.O_TMPFILE {
		return 0o644
	}
	return 0
}

// c02LexicalOf is only used to label a wrong path as the "lexical .." kind.
func c02LexicalOf(op c02Op, i int, R func(string) string, cwd string) string {
	p := R(op.P1)
	if i == 1 {
		p = R(op.P2)
	}
	if !strings.HasPrefix(p, "/") {
		return ""
	}
	return filepath.Clean(p)
}

func dedup(l []string) []string {
	m := map[string]bool{}
	var out []string
	for _, s := range l {
		if !m[s] {
			m[s] = true
			out = append(out, s)
		}
	}
	return out
}

func TestC02Paths(t *testing.T) {
	rec := vh.NewRecorder(t, "C02", "exploration",
		"case = forest of 3..12 nodes (dirs to depth 4, files, symlinks with relative/absolute/decorated/dangling targets, chains) + script of 4..16 ops: chdir/fchdir/open-dirfd set-up and calls over 26 traced path syscalls with model-guided pathnames (children, '..', '.', '//', trailing '/', missing final name, /proc/self|thread-self/{cwd,root,fd/N} aliases), AT_FDCWD in 3 register encodings, real dirfds with/without garbage upper bits, random open flag words, strings at page ends; "+
			"oracle = kernel O_PATH resolution of the same (base, pathname); non-trivial = kernel resolution differs from lexical Clean(base/path), or non-canonical dirfd encoding, or AT_EMPTY_PATH; distinct = distinct case")
	rec.Assume("calls whose intermediate components do not resolve, and final symlinks under no-follow calls (both readings accepted), are counted, not judged (DESIGN.md C02 'Not asserted')")
	root, err := vh.ScratchDir("c02")
	if err != nil {
		t.Fatalf("INFRA: %v", err)
	}
	defer os.RemoveAll(root)
	root, _ = filepath.EvalSymlinks(root)
	_ = syscall.Chmod(root, 0o755)
	vh.Check(t, rec, c02GenCase, func(c c02Case) error { return c02Run(c, root, rec) })
}

var c02Debug = os.Getenv("VERIF_DEBUG") != ""

// TestC02Concurrent: the policy of one sandbox is asked about *its* program's paths also while other sandboxes of the
// same process are trapping path syscalls at the same time (2..4 generated cases, each on a forest of its own, run
// together; every one is judged exactly as when run alone).
func TestC02Concurrent(t *testing.T) {
	rec := vh.NewRecorder(t, "C02", "exploration",
		"concurrent part: 2..4 generated cases (as in the paths part), each on its own forest, traced at the same time by different threads of one process; each is judged against the kernel's resolution exactly as when run alone; non-trivial as in the paths part")
	rec.Assume("which traps of different sandboxes overlap is the OS scheduler's; cases have 4..16 traced calls each and are repeated")
	base, err := vh.ScratchDir("c02c")
	if err != nil {
		t.Fatalf("INFRA: %v", err)
	}
	defer os.RemoveAll(base)
	base, _ = filepath.EvalSymlinks(base)
	_ = syscall.Chmod(base, 0o755)
	const slots = 4
	var roots [slots]string
	for i := range roots {
		roots[i] = filepath.Join(base, fmt.Sprintf("r%d", i))
		if err := os.Mkdir(roots[i], 0o755); err != nil {
			t.Fatalf("INFRA: %v", err)
		}
	}
	type conc struct{ Cases []c02Case }
	vh.Check(t, rec, func(rt *rapid.T) conc {
		var c conc
		for n := rapid.IntRange(2, slots).Draw(rt, "ncases"); n > 0; n-- {
			c.Cases = append(c.Cases, c02GenCase(rt))
		}
		return c
	}, func(c conc) error {
		errs := make([]error, len(c.Cases))
		var wg sync.WaitGroup
		start := make(chan struct{})
		for i := range c.Cases {
			wg.Add(1)
			go func(i int) {
				defer wg.Done()
				<-start
				// several rounds, so that the runs overlap for longer than one launch takes
				for r := 0; r < 3 && errs[i] == nil; r++ {
					errs[i] = c02Run(c.Cases[i], roots[i%slots], rec)
				}
			}(i)
		}
		close(start)
		wg.Wait()
		rec.Class(fmt.Sprintf("concurrent-sandboxes=%d", len(c.Cases)), 1)
		for i, e := range errs {
			if e != nil {
				if v, ok := e.(*vh.Violation); ok {
					v.Key += "/concurrent"
					v.Detail = fmt.Sprintf("sandbox %d of %d traced concurrently: %s", i, len(c.Cases), v.Detail)
				}
				return e
			}
		}
		return nil
	})
}

//go:build verif

package checks

// C10 — the container RPC never desynchronises; request-/program-caused failures keep the environment usable.
// A generated history of environment operations is applied to a real environment and to a small model; every answer
// must belong to its call, the per-endpoint message logs (tag "verif" hooks) must follow the protocol of
// container/doc.go and mirror each other, and the environment must stay usable until the transport is cut.

import (
	"bufio"
	"context"
	"fmt"
	"os"
	"path/filepath"
	"regexp"
	"strings"
	"sync"
	"syscall"
	"testing"
	"time"

	"github.com/criyle/go-sandbox/container"
	"github.com/criyle/go-sandbox/pkg/rlimit"
	"github.com/criyle/go-sandbox/runner"
	"pgregory.net/rapid"

	"verif/internal/probe"
	"verif/internal/vh"
)

type c10Item struct {
	Path     string
	Flag     string // r | w-create | w-create-excl | rw
	MkdirAll bool
	Target   string // symlink target
}

type c10Action struct {
	Kind   string // ping open delete symlink reset execve break
	Items  []c10Item
	Path   string
	Target string // execve target kind
	Sync   string // none | ok | fail
	After  bool   // SyncAfterExec
	Ctx    string // background | cancelled | cancel-after
	Delay  int    // ms for cancel-after
	Sleep  int    // ms the program sleeps
	Code   int    // exit code of an ok program
	Freeze int    // ms: SIGSTOP the init when the host reaches its wait point, SIGCONT after this long (both "result" and "kill" pending)
	// execve "ok" in the background context: a second Execve (its own exit code) is issued in the same goroutine the
	// moment the first one has returned - no pause in which the environment could finish tidying up after the first
	Twin bool `json:",omitempty"`
}

type c10Case struct{ Actions []c10Action }

var c10Targets = []string{"ok", "ok", "ok", "ok-orphan", "ok-orphan", "unknown", "rel-found", "noexec", "truncated", "script-missing-interp", "directory", "abs-missing", "empty-args", "empty-args-fd", "bad-rlimit"}

func c10GenCase(rt *rapid.T) c10Case {
	var c c10Case
	n := rapid.IntRange(4, 24).Draw(rt, "n")
	pathGen := func(label string) string {
		k := rapid.IntRange(0, 5).Draw(rt, label)
		switch rapid.IntRange(0, 5).Draw(rt, label+"d") {
		case 0:
			return fmt.Sprintf("/tmp/f%d", k)
		case 1:
			return fmt.Sprintf("/w/d%d/f%d", k%2, k)
		default:
			return fmt.Sprintf("/w/f%d", k)
		}
	}
	for i := 0; i < n; i++ {
		k := rapid.IntRange(0, 19).Draw(rt, "kind")
		switch {
		case k < 2:
			c.Actions = append(c.Actions, c10Action{Kind: "ping"})
		case k < 6:
			a := c10Action{Kind: "open"}
			m := rapid.IntRange(0, 5).Draw(rt, "nitems")
			for j := 0; j < m; j++ {
				a.Items = append(a.Items, c10Item{Path: pathGen("op"), Flag: rapid.SampledFrom([]string{"r", "w-create", "w-create", "w-create-excl", "rw"}).Draw(rt, "flag"),
					MkdirAll: rapid.IntRange(0, 3).Draw(rt, "mkdirall") == 0})
			}
			c.Actions = append(c.Actions, a)
		case k < 8:
			c.Actions = append(c.Actions, c10Action{Kind: "delete", Path: pathGen("dp")})
		case k < 10:
			a := c10Action{Kind: "symlink"}
			m := rapid.IntRange(0, 4).Draw(rt, "nlinks")
			for j := 0; j < m; j++ {
				a.Items = append(a.Items, c10Item{Path: pathGen("lp"), Target: rapid.SampledFrom([]string{"/w/f0", "nowhere", "/", "../x"}).Draw(rt, "lt")})
			}
			c.Actions = append(c.Actions, a)
		case k < 11:
			c.Actions = append(c.Actions, c10Action{Kind: "reset"})
		case k == 19 && i > n/2 && rapid.IntRange(0, 2).Draw(rt, "break") == 0:
			c.Actions = append(c.Actions, c10Action{Kind: rapid.SampledFrom([]string{"break", "break", "oversize"}).Draw(rt, "breakkind")})
		default:
			a := c10Action{Kind: "execve", Target: rapid.SampledFrom(c10Targets).Draw(rt, "target"), Sync: rapid.SampledFrom([]string{"none", "ok", "ok", "fail"}).Draw(rt, "sync"),
				After: rapid.IntRange(0, 3).Draw(rt, "after") == 0, Ctx: rapid.SampledFrom([]string{"background", "background", "background", "cancelled", "cancel-after"}).Draw(rt, "ctx"),
				Twin: rapid.IntRange(0, 2).Draw(rt, "twin") == 0, Delay: rapid.IntRange(0, 12).Draw(rt, "delay"), Sleep: rapid.SampledFrom([]int{0, 0, 0, 1, 3, 8, 30}).Draw(rt, "sleep"), Code: rapid.IntRange(0, 200).Draw(rt, "code"),
				Freeze: rapid.SampledFrom([]int{0, 0, 0, 2, 10, 25}).Draw(rt, "freeze")}
			c.Actions = append(c.Actions, a)
		}
	}
	return c
}

// ---- message logs -----------------------------------------------------------------------------------------

type c10Log struct {
	mu   sync.Mutex
	host []string // "send cmd:5", "recv reply:ok"
	cont []string
	sock *container.VerifSocket // only this environment's endpoint (set after Build; Build's own traffic is dropped)
}

func (l *c10Log) addHost(sock *container.VerifSocket, dir, kind string) {
	l.mu.Lock()
	if l.sock == nil || sock == l.sock {
		l.host = append(l.host, dir+" "+kind)
	}
	l.mu.Unlock()
}

func (l *c10Log) snapshot() ([]string, []string) {
	l.mu.Lock()
	defer l.mu.Unlock()
	return append([]string{}, l.host...), append([]string{}, l.cont...)
}

// mirror: what the container must have logged for a given host log
func c10Mirror(host []string) []string {
	out := make([]string, len(host))
	for i, h := range host {
		if strings.HasPrefix(h, "send ") {
			out[i] = "recv " + h[5:]
		} else {
			out[i] = "send " + h[5:]
		}
	}
	return out
}

var (
	c10SimpleRe = regexp.MustCompile(`^send cmd:(1|2|3|4|9);recv reply:(ok|error|batch);$`)
	// execve: cmd:5, then either an error reply (failure before sync), or the sync reply followed by ok/kill ...
	c10ExecRe = regexp.MustCompile(`^send cmd:5;(recv reply:error;|recv reply:ok;(send cmd:7;recv reply:(error|exec);|send cmd:6;(recv reply:(exec|error);send cmd:7;|send cmd:7;recv reply:(exec|error);)))$`)
	// two complete execve words in a row (twin calls)
	c10ExecTwinRe = regexp.MustCompile(`^(send cmd:5;(recv reply:error;|recv reply:ok;(send cmd:7;recv reply:(error|exec);|send cmd:6;(recv reply:(exec|error);send cmd:7;|send cmd:7;recv reply:(exec|error);)))){2}$`)
)

// ---- the model ----------------------------------------------------------------------------------------------

type c10Model map[string]string // path -> file | symlink | dir

func (m c10Model) parentOK(p string, mk bool) bool {
	d := filepath.Dir(p)
	if d == "/w" || d == "/tmp" {
		return true
	}
	if m[d] == "dir" {
		return true
	}
	if mk && m[d] == "" {
		m[d] = "dir"
		return true
	}
	return false
}

func c10OpenFlag(f string) int {
	switch f {
	case "r":
		return os.O_RDONLY
	case "w-create":
		return os.O_WRONLY | os.O_CREATE
	case "w-create-excl":
		return os.O_WRONLY | os.O_CREATE | os.O_EXCL
	}
	return os.O_RDWR
}

// ---- running a history -------------------------------------------------------------------------------------------

func c10Run(c c10Case, rec *vh.Recorder) error {
	log := &c10Log{}
	container.VerifHook.Msg = log.addHost
	defer func() { container.VerifHook.Msg = nil }()
	pr, pw, err := os.Pipe()
	if err != nil {
		return vh.Infraf("pipe: %v", err)
	}
	var contErr strings.Builder
	contDone := make(chan struct{})
	go func() {
		sc := bufio.NewScanner(pr)
		for sc.Scan() {
			ln := sc.Text()
			if strings.HasPrefix(ln, "VMSG ") {
				log.mu.Lock()
				log.cont = append(log.cont, ln[5:])
				log.mu.Unlock()
			} else {
				log.mu.Lock()
				contErr.WriteString(ln + "\n")
				log.mu.Unlock()
			}
		}
		close(contDone)
	}()
	env, root, err := buildContainer(&container.Builder{Stderr: pw})
	pw.Close()
	if err != nil {
		pr.Close()
		return vh.Infraf("build: %v", err)
	}
	defer func() {
		env.Destroy()
		os.RemoveAll(root)
		select {
		case <-contDone:
		case <-time.After(2 * time.Second):
		}
		pr.Close()
	}()
	initPid := container.VerifInitPid(env)
	// from here on only this environment's endpoint is logged; forget Build's ping/conf traffic on both sides
	// (a marker Ping, then quiescence: when Build had to be retried on a saturated machine the log also holds lines of the
	// discarded init, so a line count says nothing)
	{
		_, ct0 := log.snapshot()
		if err := env.Ping(); err != nil {
			return vh.Infraf("ping after build: %v", err)
		}
		last, stableSince := -1, time.Now()
		for dl := time.Now().Add(10 * time.Second); ; {
			_, ct := log.snapshot()
			if len(ct) != last {
				last, stableSince = len(ct), time.Now()
			}
			if len(ct) >= len(ct0)+2 && len(ct) >= 6 && time.Since(stableSince) > 50*time.Millisecond {
				break
			}
			if time.Now().After(dl) {
				return vh.Infraf("container message log did not show Build's traffic and the marker ping: %v", ct)
			}
			time.Sleep(time.Millisecond)
		}
	}
	log.mu.Lock()
	log.sock = container.VerifSocketOf(env)
	log.host, log.cont = nil, nil
	log.mu.Unlock()
	efd, err := probeExecFd()
	if err != nil {
		return err
	}
	model := c10Model{}
	broken := false
	var classes []string
	failAfterSync, failing, successAfterFail := 0, 0, false
	// message log position of the start of the current call
	hostPos := 0
	{
		h, _ := log.snapshot()
		hostPos = len(h) // Build's own ping/conf traffic
	}
	call := func(name string, f func() error) (error, time.Duration, bool) {
		ch := make(chan error, 1)
		st := time.Now()
		go func() { ch <- f() }()
		select {
		case e := <-ch:
			return e, time.Since(st), false
		case <-time.After(20 * time.Second):
			return nil, time.Since(st), true
		}
	}
	contInfo := func() string {
		log.mu.Lock()
		defer log.mu.Unlock()
		return strings.TrimSpace(contErr.String())
	}
	checkLogs := func(ai int, a c10Action, re *regexp.Regexp) error {
		// host projection of this call
		deadline := time.Now().Add(10 * time.Second)
		for {
			h, ct := log.snapshot()
			seq := strings.Join(h[hostPos:], ";") + ";"
			if len(h) == hostPos {
				seq = ""
			}
			// the two endpoints log from independent goroutines, so only the per-direction projections are ordered:
			// what the container received must be what the host sent, and vice versa
			proj := func(l []string, dir string) []string {
				var o []string
				for _, x := range l {
					if strings.HasPrefix(x, dir+" ") {
						o = append(o, x[len(dir)+1:])
					}
				}
				return o
			}
			same := fmt.Sprint(proj(h, "send")) == fmt.Sprint(proj(ct, "recv")) && fmt.Sprint(proj(h, "recv")) == fmt.Sprint(proj(ct, "send"))
			// the last message of a call may still sit in the send queue when the API call returns: keep polling until the
			// sequence is a complete word of the protocol; only the state at the deadline is judged
			if same && (re == nil || re.MatchString(seq)) {
				hostPos = len(h)
				return nil
			}
			if same && time.Now().After(deadline) {
				return vh.Violf("C10:protocol", "action #%d %+v: host message sequence %q is not a word of the protocol", ai, a, seq)
			}
			if time.Now().After(deadline) {
				return vh.Violf("C10:endpoints-disagree", "action #%d %+v: host log %v, container log %v (container must mirror the host's); container stderr %q", ai, a, h[hostPos:], tail(ct, len(h)-hostPos+2), contInfo())
			}
			time.Sleep(2 * time.Millisecond)
		}
	}
	for ai, a := range c.Actions {
		desc := fmt.Sprintf("action #%d %+v", ai, a)
		if broken {
			// transport lost: every call must fail promptly
			e, dt, hung := call("ping", func() error { return env.Ping() })
			if hung || dt > 5*time.Second {
				return vh.Violf("C10:hang-after-transport-loss", "%s: Ping after the init was killed took %v (hung=%v)", desc, dt, hung)
			}
			if e == nil {
				return vh.Violf("C10:success-after-transport-loss", "%s: Ping succeeded although the init is dead", desc)
			}
			if a.Kind == "execve" {
				var r runner.Result
				_, dt, hung := call("execve", func() error {
					r = env.Execve(context.Background(), container.ExecveParam{Args: []string{"/bin/true"}, Env: []string{"PATH=/bin"}})
					return nil
				})
				if hung || dt > 5*time.Second || r.Status != runner.StatusRunnerError {
					return vh.Violf("C10:hang-after-transport-loss", "%s: Execve after transport loss: %v hung=%v status %v", desc, dt, hung, r.Status)
				}
			}
			continue
		}
		switch a.Kind {
		case "ping":
			e, _, hung := call("ping", func() error { return env.Ping() })
			if hung {
				return vh.Violf("C10:call-never-answered", "%s", desc)
			}
			if e != nil {
				return vh.Violf("C10:unusable", "%s: Ping failed: %v; container stderr %q", desc, e, contInfo())
			}
			if err := checkLogs(ai, a, c10SimpleRe); err != nil {
				return err
			}
		case "open":
			var cmds []container.OpenCmd
			want := make([]bool, len(a.Items)) // success expected
			for i, it := range a.Items {
				fl := c10OpenFlag(it.Flag)
				cmds = append(cmds, container.OpenCmd{Path: it.Path, Flag: fl, Perm: 0o644, MkdirAll: it.MkdirAll})
				kind := model[it.Path]
				parent := model.parentOK(it.Path, it.MkdirAll)
				switch kind {
				case "":
					if fl&os.O_CREATE != 0 && parent {
						want[i] = true
						model[it.Path] = "file"
					}
				case "file":
					want[i] = fl&os.O_EXCL == 0
				}
			}
			var res []container.OpenCmdResult
			e, _, hung := call("open", func() error { var err error; res, err = env.Open(cmds); return err })
			if hung {
				return vh.Violf("C10:call-never-answered", "%s", desc)
			}
			if len(a.Items) == 0 {
				if e == nil {
					return vh.Violf("C10:wrong-answer", "%s: empty Open batch succeeded with %d results", desc, len(res))
				}
				failing++
			} else {
				if e != nil {
					return vh.Violf("C10:unusable", "%s: Open failed as a whole: %v; container stderr %q", desc, e, contInfo())
				}
				if len(res) != len(cmds) {
					return vh.Violf("C10:wrong-answer", "%s: %d results for %d items", desc, len(res), len(cmds))
				}
				for i, r := range res {
					got := r.Err == nil && r.File != nil
					if got {
						// the descriptor must belong to this item: its name inside the mount is the requested base name
						l, _ := os.Readlink(fmt.Sprintf("/proc/self/fd/%d", r.File.Fd()))
						if filepath.Base(l) != filepath.Base(cmds[i].Path) {
							closeAll(res)
							return vh.Violf("C10:answer-of-another-call", "%s: item %d (%s) got a descriptor for %q", desc, i, cmds[i].Path, l)
						}
					}
					if got != want[i] {
						closeAll(res)
						return vh.Violf("C10:wrong-answer", "%s: item %d (%s flag %s): success=%v err=%v, model expects success=%v (model %v)", desc, i, cmds[i].Path, a.Items[i].Flag, got, r.Err, want[i], model)
					}
					if !got {
						failing++
					}
				}
				closeAll(res)
			}
			if err := checkLogs(ai, a, c10SimpleRe); err != nil {
				return err
			}
		case "delete":
			kind := model[a.Path]
			wantOK := kind == "file" || kind == "symlink"
			if kind == "dir" {
				wantOK = true
				for p := range model {
					if strings.HasPrefix(p, a.Path+"/") {
						wantOK = false
					}
				}
			}
			e, _, hung := call("delete", func() error { return env.Delete(a.Path) })
			if hung {
				return vh.Violf("C10:call-never-answered", "%s", desc)
			}
			if (e == nil) != wantOK {
				return vh.Violf("C10:wrong-answer", "%s: Delete returned %v, model expects ok=%v (model %v)", desc, e, wantOK, model)
			}
			if e != nil {
				failing++
				if !strings.Contains(e.Error(), a.Path) {
					return vh.Violf("C10:answer-of-another-call", "%s: error %q does not mention the path", desc, e)
				}
			} else {
				delete(model, a.Path)
			}
			if err := checkLogs(ai, a, c10SimpleRe); err != nil {
				return err
			}
		case "symlink":
			var links []container.SymbolicLink
			want := make([]bool, len(a.Items))
			for i, it := range a.Items {
				links = append(links, container.SymbolicLink{LinkPath: it.Path, Target: it.Target})
				if model[it.Path] == "" && model.parentOK(it.Path, false) {
					want[i] = true
					model[it.Path] = "symlink"
				}
			}
			var res []error
			e, _, hung := call("symlink", func() error { var err error; res, err = env.Symlink(links); return err })
			if hung {
				return vh.Violf("C10:call-never-answered", "%s", desc)
			}
			if len(a.Items) == 0 {
				if e == nil {
					return vh.Violf("C10:wrong-answer", "%s: empty Symlink batch succeeded", desc)
				}
				failing++
			} else {
				if e != nil {
					return vh.Violf("C10:unusable", "%s: Symlink failed as a whole: %v; container stderr %q", desc, e, contInfo())
				}
				if len(res) != len(links) {
					return vh.Violf("C10:wrong-answer", "%s: %d results for %d links", desc, len(res), len(links))
				}
				for i, r := range res {
					if (r == nil) != want[i] {
						return vh.Violf("C10:wrong-answer", "%s: link %d (%s): err=%v, model expects ok=%v (model %v)", desc, i, links[i].LinkPath, r, want[i], model)
					}
					if r != nil {
						failing++
					}
				}
			}
			if err := checkLogs(ai, a, c10SimpleRe); err != nil {
				return err
			}
		case "reset":
			e, _, hung := call("reset", func() error { return env.Reset() })
			if hung {
				return vh.Violf("C10:call-never-answered", "%s", desc)
			}
			if e != nil {
				return vh.Violf("C10:unusable", "%s: Reset failed: %v", desc, e)
			}
			for p := range model {
				delete(model, p)
			}
			if err := checkLogs(ai, a, c10SimpleRe); err != nil {
				return err
			}
		case "break":
			syscall.Kill(initPid, syscall.SIGKILL)
			broken = true
			classes = append(classes, "transport-cut")
		case "oversize":
			// a request that does not fit the 32 KiB frame: the call is answered with an error (never left waiting); the
			// documented consequence for the environment is that of a transport loss: every later call fails promptly
			var r runner.Result
			big := "BIG=" + strings.Repeat("x", 48<<10)
			_, dt, hung := call("execve", func() error {
				r = env.Execve(context.Background(), container.ExecveParam{Args: []string{"/bin/true"}, Env: []string{"PATH=/bin", big}})
				return nil
			})
			if hung {
				return vh.Violf("C10:call-never-answered", "%s: an Execve whose request exceeds the frame size did not return in 20 s", desc)
			}
			if r.Status != runner.StatusRunnerError || r.Error == "" {
				return vh.Violf("C10:failure-not-reported", "%s: oversize Execve returned %v exit %d %q after %v", desc, r.Status, r.ExitStatus, r.Error, dt)
			}
			broken = true
			classes = append(classes, "oversize-request")
		case "execve":
			code := a.Code
			var s probe.Script
			if a.Target == "ok-orphan" {
				// the main process ends by itself while a descendant is still alive (and ignores signals): program-caused,
				// the environment has to cope and serve the next call
				s.Add("fork{")
				s.Add("sigign")
				s.Add("sleep:600000")
				s.Add("}")
			}
			if a.Sleep > 0 {
				s.Add(fmt.Sprintf("sleep:%d", a.Sleep))
			}
			s.Add(fmt.Sprintf("exit:%d", code))
			tag := newTag()
			argv := s.Argv(tag, 3)
			argv[0] = "/vprobe"
			dn := devNullFile()
			p := container.ExecveParam{Args: argv, Env: []string{"PATH=/bin:/usr/bin"}, Files: []uintptr{dn.Fd(), dn.Fd(), dn.Fd()}, ExecFile: efd, SyncAfterExec: a.After}
			// prepare special targets with the model in step
			mkfile := func(path string, perm os.FileMode, content string) error {
				env.Delete(path)
				delete(model, path)
				res, err := env.Open([]container.OpenCmd{{Path: path, Flag: os.O_WRONLY | os.O_CREATE | os.O_TRUNC, Perm: perm}})
				if err != nil || res[0].Err != nil {
					return vh.Violf("C10:unusable", "%s: preparing %s failed: %v %v; container stderr %q", desc, path, err, res, contInfo())
				}
				res[0].File.WriteString(content)
				res[0].File.Close()
				model[path] = "file"
				return nil
			}
			fails, afterSync := true, false
			switch a.Target {
			case "ok", "ok-orphan":
				fails = false
			case "unknown":
				p.ExecFile, p.Args = 0, []string{"definitely-not-a-command"}
			case "rel-found":
				p.ExecFile, p.Args = 0, []string{"true"}
				fails, code = false, 0
			case "noexec":
				if err := mkfile("/w/x-noexec", 0o644, "#!/bin/sh\n"); err != nil {
					return err
				}
				p.ExecFile, p.Args = 0, []string{"/w/x-noexec"}
				afterSync = true
			case "truncated":
				if err := mkfile("/w/x-trunc", 0o755, "\x7fELF\x02"); err != nil {
					return err
				}
				p.ExecFile, p.Args = 0, []string{"/w/x-trunc"}
				afterSync = true
			case "script-missing-interp":
				if err := mkfile("/w/x-script", 0o755, "#!/nonexistent/interp\n"); err != nil {
					return err
				}
				p.ExecFile, p.Args = 0, []string{"/w/x-script"}
				afterSync = true
			case "directory":
				p.ExecFile, p.Args = 0, []string{"/w"}
				afterSync = true
			case "abs-missing":
				p.ExecFile, p.Args = 0, []string{"/w/definitely-missing"}
				afterSync = true
			case "empty-args":
				p.ExecFile, p.Args = 0, nil // execve(NULL) => EFAULT, after the sync
				afterSync = true
			case "empty-args-fd":
				p.Args = nil // the kernel accepts an empty argv for execveat(fd): the probe runs and exits 99 (argc < 3)
				fails, code = false, 99
			case "bad-rlimit":
				p.RLimits = []rlimit.RLimit{{Res: syscall.RLIMIT_CPU, Rlim: syscall.Rlimit{Cur: 10, Max: 5}}}
			}
			if a.Target != "ok" && a.Target != "rel-found" {
				// the preparation calls above are API calls of their own
				h, _ := log.snapshot()
				_ = h
			}
			{
				// swallow the log entries of preparation calls (each is a simple command, checked loosely)
				deadline := time.Now().Add(2 * time.Second)
				for {
					h, ct := log.snapshot()
					if len(h) == len(ct) {
						hostPos = len(h)
						break
					}
					_ = c10Mirror
					if time.Now().After(deadline) {
						return vh.Violf("C10:endpoints-disagree", "%s: after preparation host log has %d entries, container %d", desc, len(h), len(ct))
					}
					time.Sleep(time.Millisecond)
				}
			}
			syncCalled := false
			switch a.Sync {
			case "ok":
				p.SyncFunc = func(int) error { syncCalled = true; return nil }
			case "fail":
				p.SyncFunc = func(int) error { syncCalled = true; return errC07Callback }
			}
			ctx := context.Background()
			var cancel context.CancelFunc
			switch a.Ctx {
			case "cancelled":
				ctx, cancel = context.WithCancel(ctx)
				cancel()
			case "cancel-after":
				ctx, cancel = context.WithTimeout(ctx, time.Duration(a.Delay)*time.Millisecond)
			}
			if a.Freeze > 0 {
				frozen := false
				container.VerifHook.Point = func(name string) {
					if name == "execve:wait" && !frozen {
						frozen = true
						syscall.Kill(initPid, syscall.SIGSTOP)
						go func() {
							time.Sleep(time.Duration(a.Freeze) * time.Millisecond)
							syscall.Kill(initPid, syscall.SIGCONT)
						}()
					}
				}
				classes = append(classes, "init-frozen-at-wait")
			}
			var res, res2 runner.Result
			twin := a.Twin && a.Target == "ok" && a.Ctx == "background" && a.Freeze == 0 && a.Sync != "fail"
			code2 := (code+7)%200 + 1
			var p2 container.ExecveParam
			if twin {
				var s2 probe.Script
				s2.Add(fmt.Sprintf("exit:%d", code2))
				argv2 := s2.Argv(tag, 3)
				argv2[0] = "/vprobe"
				p2 = container.ExecveParam{Args: argv2, Env: []string{"PATH=/bin:/usr/bin"}, Files: []uintptr{dn.Fd(), dn.Fd(), dn.Fd()}, ExecFile: efd}
				if code%2 == 0 {
					p2.ExecFile, p2.Args = 0, []string{"false"} // by path, found in PATH: exits 1
					code2 = 1
				}
			}
			_, _, hung := call("execve", func() error {
				res = env.Execve(ctx, p)
				if twin {
					res2 = env.Execve(context.Background(), p2)
				}
				return nil
			})
			container.VerifHook.Point = nil
			syscall.Kill(initPid, syscall.SIGCONT)
			if cancel != nil {
				cancel()
			}
			if hung {
				st := "?"
				if b, err := os.ReadFile(fmt.Sprintf("/proc/%d/stat", initPid)); err == nil {
					st = string(b)
				}
				killTagged(tag)
				return vh.Violf("C10:call-never-answered", "%s: Execve did not return in 20s; init stat %q; container stderr %q", desc, st, contInfo())
			}
			if a.Target == "ok-orphan" {
				defer killTagged(tag) // what the program left behind is the environment's business until the history is over
			} else {
				killTagged(tag)
			}
			syncFails := a.Sync == "fail"
			switch {
			case fails || (syncFails && !(fails && !afterSync)):
				// some error must be reported, with an explanation; which of the two failures wins depends on order:
				// failures before the sync pre-empt the callback
				if res.Status != runner.StatusRunnerError || res.Error == "" {
					return vh.Violf("C10:failure-not-reported", "%s: got %v exit %d %q", desc, res.Status, res.ExitStatus, res.Error)
				}
				failing++
				if fails && afterSync && !syncFails && !a.After {
					failAfterSync++
				}
			case a.Ctx != "background":
				okOwn := (code == 0 && res.Status == runner.StatusNormal) || (code != 0 && res.Status == runner.StatusNonzeroExitStatus && res.ExitStatus == code)
				if !okOwn && res.Status != runner.StatusTimeLimitExceeded {
					return vh.Violf("C10:wrong-answer", "%s: cancelled run reports %v exit %d %q", desc, res.Status, res.ExitStatus, res.Error)
				}
			default:
				want := runner.StatusNormal
				if code != 0 {
					want = runner.StatusNonzeroExitStatus
				}
				if res.Status != want || res.ExitStatus != code {
					key := "C10:wrong-answer"
					if res.Status == runner.StatusNormal || res.Status == runner.StatusNonzeroExitStatus {
						key = "C10:answer-of-another-call"
					}
					return vh.Violf(key, "%s: got %v exit %d %q, this call's program exits %d; container stderr %q", desc, res.Status, res.ExitStatus, res.Error, code, contInfo())
				}
				if failing > 0 {
					successAfterFail = true
				}
				if a.Sync != "none" && !syncCalled {
					return vh.Violf("C10:sync-skipped", "%s", desc)
				}
			}
			if twin {
				if res2.Status != runner.StatusNonzeroExitStatus || res2.ExitStatus != code2 {
					return vh.Violf("C10:wrong-answer", "%s: the Execve issued right after this one returned got %v exit %d %q, its program exits %d; container stderr %q", desc, res2.Status, res2.ExitStatus, res2.Error, code2, contInfo())
				}
				classes = append(classes, "twin-execve(no pause between two calls)")
				if err := checkLogs(ai, a, c10ExecTwinRe); err != nil {
					return err
				}
			} else if err := checkLogs(ai, a, c10ExecRe); err != nil {
				return err
			}
		}
	}
	if !broken {
		// usability: a final Ping and a program with a distinctive exit code
		if e := env.Ping(); e != nil {
			return vh.Violf("C10:unusable", "final Ping: %v; container stderr %q", e, contInfo())
		}
		var s probe.Script
		s.Add("exit:7")
		argv := s.Argv(newTag(), 3)
		argv[0] = "/vprobe"
		var res runner.Result
		_, _, hung := call("execve", func() error {
			res = env.Execve(context.Background(), container.ExecveParam{Args: argv, ExecFile: efd})
			return nil
		})
		if hung || res.Status != runner.StatusNonzeroExitStatus || res.ExitStatus != 7 {
			return vh.Violf("C10:unusable", "final Execve(exit 7): hung=%v %v exit %d %q; container stderr %q", hung, res.Status, res.ExitStatus, res.Error, contInfo())
		}
	}
	nt := failAfterSync > 0 || (failing >= 2 && successAfterFail)
	for _, a := range c.Actions {
		classes = append(classes, "action="+a.Kind)
		if a.Kind == "execve" {
			classes = append(classes, "target="+a.Target, "ctx="+a.Ctx)
		}
	}
	if failAfterSync > 0 {
		classes = append(classes, "exec-fails-after-sync")
	}
	rec.Case(c, nt, dedup(classes)...)
	rec.Evals(len(c.Actions))
	if nt && rec.WantSample() && len(c.Actions) <= 10 {
		rec.Sample(c)
	}
	return nil
}

func closeAll(res []container.OpenCmdResult) {
	for _, r := range res {
		if r.File != nil {
			r.File.Close()
		}
	}
}

func tail(l []string, n int) []string {
	if n < 0 {
		n = 0
	}
	if len(l) > n {
		return l[len(l)-n:]
	}
	return l
}

func TestC10History(t *testing.T) {
	rec := vh.NewRecorder(t, "C10", "exploration",
		"case = history of 4..24 operations on one fresh environment: Ping, Open/Symlink batches over a 6-name pool in /w and /tmp (existing, missing, create, excl, MkdirAll, empty batch), Delete, Reset, Execve with target in {probe exiting with a per-call code, unknown name, relative name found in PATH, not executable, truncated ELF, script with missing interpreter, directory, missing absolute path, empty Args with/without ExecFile, bad rlimit} x SyncFunc {nil, ok, failing} x SyncAfterExec x context {background, already cancelled, cancelled after 0..12 ms} x program duration x freezing the container init (SIGSTOP/SIGCONT) for 0..25 ms at the host's wait point so that the result and the kill are both pending, and cutting the transport (SIGKILL of the init); "+
			"oracle = a model of the container file system and of each call's outcome, per-call host message sequence against the protocol of container/doc.go, container log mirrors host log at every quiescent point, final Ping + Execve(exit 7); after a transport cut every call fails within 5 s; non-trivial = an Execve failing after the sync acknowledgement, or >=2 failing actions followed by a successful Execve")
	vh.Check(t, rec, c10GenCase, func(c c10Case) error { return c10Run(c, rec) })
}

// TestC10QueuedCalls: a second call on an environment while an Execve on it is still running for longer than any of
// the library's own timeouts (Ping arms a 3 s deadline): the queued call must wait its turn without disturbing the call
// in flight - the Execve's answer is its own program's exit code, the queued call gets its own answer, and the
// environment serves the next calls.
func TestC10QueuedCalls(t *testing.T) {
	rec := vh.NewRecorder(t, "C10", "exploration", "queued-call part: for each of {Ping, Open, Symlink, Delete, Reset} the call is issued from another goroutine 0.3 s into an Execve that sleeps 3.6 s (longer than Ping's own 3 s deadline) on the same environment; the Execve must return its own exit code, the queued call its own answer, and a final Ping + Execve(exit 7) must work")
	defer rec.Write()
	type qcase struct{ Queued string }
	run := func(c qcase) error {
		ce := &c09Env{}
		defer ce.close()
		env, err := ce.get()
		if err != nil {
			return err
		}
		var s probe.Script
		s.Add("sleep:3600")
		s.Add("exit:41")
		resCh := make(chan *tracedResult, 1)
		go func() {
			tr, _ := runContainer(sandboxOpts{Script: &s, Env: env, Timeout: 60 * time.Second})
			resCh <- tr
		}()
		time.Sleep(300 * time.Millisecond)
		qCh := make(chan error, 1)
		go func() {
			switch c.Queued {
			case "ping":
				qCh <- env.Ping()
			case "open":
				res, err := env.Open([]container.OpenCmd{{Path: "/w/queued", Flag: os.O_RDWR | os.O_CREATE, Perm: 0o644}})
				if err == nil && (len(res) != 1 || res[0].Err != nil) {
					err = fmt.Errorf("open result %+v", res)
				}
				closeAll(res)
				qCh <- err
			case "symlink":
				res, err := env.Symlink([]container.SymbolicLink{{LinkPath: "/w/ql", Target: "t"}})
				if err == nil && (len(res) != 1 || res[0] != nil) {
					err = fmt.Errorf("symlink result %v", res)
				}
				qCh <- err
			case "delete":
				if err := env.Delete("/w/none"); err == nil {
					qCh <- fmt.Errorf("Delete of a missing path succeeded")
				} else {
					qCh <- nil
				}
			default:
				qCh <- env.Reset()
			}
		}()
		tr := <-resCh
		if tr == nil || tr.Hung || tr.Result.Status != runner.StatusNonzeroExitStatus || tr.Result.ExitStatus != 41 {
			st := "nil"
			if tr != nil {
				st = fmt.Sprintf("hung=%v %v exit %d %q", tr.Hung, tr.Result.Status, tr.Result.ExitStatus, tr.Result.Error)
			}
			return vh.Violf("C10:inflight-call-disturbed", "an Execve that sleeps 3.6 s and exits 41 returned %s after %s was called on the same environment 0.3 s into it", st, c.Queued)
		}
		select {
		case e := <-qCh:
			if e != nil {
				return vh.Violf("C10:queued-call-failed", "the %s queued behind the long Execve: %v", c.Queued, e)
			}
		case <-time.After(10 * time.Second):
			return vh.Violf("C10:call-never-answered", "the %s queued behind the long Execve never returned", c.Queued)
		}
		if e := env.Ping(); e != nil {
			return vh.Violf("C10:unusable", "Ping after the long Execve and the queued %s: %v", c.Queued, e)
		}
		var f probe.Script
		f.Add("exit:7")
		ftr, err := runContainer(sandboxOpts{Script: &f, Env: env, Timeout: 20 * time.Second})
		if err != nil {
			return err
		}
		if ftr.Hung || ftr.Result.Status != runner.StatusNonzeroExitStatus || ftr.Result.ExitStatus != 7 {
			return vh.Violf("C10:unusable", "Execve(exit 7) after the long Execve and the queued %s: hung=%v %v exit %d %q", c.Queued, ftr.Hung, ftr.Result.Status, ftr.Result.ExitStatus, ftr.Result.Error)
		}
		return nil
	}
	if vh.ReplayIfRequested(t, rec, run) {
		return
	}
	kinds := []string{"ping", "open", "symlink", "delete", "reset"}
	errs := make([]error, len(kinds))
	var wg sync.WaitGroup
	for i, k := range kinds {
		wg.Add(1)
		go func(i int, k string) {
			defer wg.Done()
			errs[i] = run(qcase{k})
		}(i, k)
	}
	wg.Wait()
	for i, k := range kinds {
		rec.Case(qcase{k}, true, "queued="+k)
		if errs[i] != nil {
			vh.Report(t, rec, qcase{k}, errs[i])
		}
	}
	rec.Sample(qcase{"ping"})
}

package checks

// C18 — path-set policy admits only covered paths; counters never exceed their budget.
// Oracle: an independent definition of "covers" (see DESIGN.md §3 C18), asserted in both directions.

import (
	"fmt"
	"os"
	"path/filepath"
	"sort"
	"strings"
	"syscall"
	"testing"

	"github.com/criyle/go-sandbox/ptracer"
	"github.com/criyle/go-sandbox/runner/ptrace/filehandler"
	"pgregory.net/rapid"

	"verif/internal/vh"
)

// ---- reference model -----------------------------------------------------------------------

// c18Entry is one entry of one set as the *model* understands it.
type c18Entry struct {
	Set  int    // 0 W, 1 R, 2 S, 3 softban
	Kind string // "exact" | "dir" (d/) | "children" (d/*) | "root"
	D    string // the path (exact) or d
}

func c18Parent(p string) (string, bool) {
	if p == "" || p == "/" {
		return "", false
	}
	i := strings.LastIndex(p, "/")
	if i < 0 {
		return "", false
	}
	return p[:i], true // parent of "/a" is "" (the root directory spelled as the empty prefix)
}

// c18Covers is the definition from the property statement.
func c18Covers(e c18Entry, p string) (covered bool, unspecified bool) {
	switch e.Kind {
	case "exact":
		return e.D == p, false
	case "root":
		return p == "/", false
	case "dir":
		if p == e.D && p != "" {
			return true, false
		}
		if e.D == "" && p == "" {
			return false, false
		}
		return strings.HasPrefix(p, e.D+"/"), false
	case "children":
		if p == "/" && e.D == "" {
			// "/" against "/*": string-wise a child of the empty directory, FS-wise not a child of root.
			return false, true
		}
		par, ok := c18Parent(p)
		return ok && par == e.D, false
	}
	return false, false
}

func c18CoveredBy(entries []c18Entry, set int, p string) (bool, bool) {
	unspec := false
	for _, e := range entries {
		if e.Set != set {
			continue
		}
		c, u := c18Covers(e, p)
		if c {
			return true, false
		}
		unspec = unspec || u
	}
	return false, unspec
}

// ---- API-level operations that build the sets -----------------------------------------------

type c18Op struct {
	API  string // add | addrange-abs | addrange-rel | perm
	Set  int
	Name string // as passed to the API
	Work string // work path for addrange-rel
}

// c18ModelEntries says which entries an API call creates (read off the documented behaviour:
// AddRange turns a relative name into a directory entry below the work path; AddFilePermission also
// makes every proper ancestor statable).
func c18ModelEntries(op c18Op) []c18Entry {
	classify := func(set int, n string) c18Entry {
		switch {
		case n == "/":
			return c18Entry{set, "root", "/"}
		case strings.HasSuffix(n, "/*"):
			return c18Entry{set, "children", strings.TrimSuffix(n, "/*")}
		case strings.HasSuffix(n, "/"):
			return c18Entry{set, "dir", strings.TrimSuffix(n, "/")}
		default:
			return c18Entry{set, "exact", n}
		}
	}
	switch op.API {
	case "add", "addrange-abs":
		return []c18Entry{classify(op.Set, op.Name)}
	case "addrange-rel":
		return []c18Entry{{op.Set, "dir", filepath.Join(op.Work, op.Name)}}
	case "perm":
		es := []c18Entry{classify(op.Set, op.Name)}
		n := op.Name
		for {
			i := strings.LastIndex(n, "/")
			if i < 0 {
				break
			}
			n = n[:i]
			if n == "" {
				break
			}
			es = append(es, classify(2, n))
		}
		return es
	}
	return nil
}

func c18Apply(fs *filehandler.FileSets, op c18Op) {
	sets := []*filehandler.FileSet{&fs.Writable, &fs.Readable, &fs.Statable, &fs.SoftBan}
	switch op.API {
	case "add":
		sets[op.Set].Add(op.Name)
	case "addrange-abs":
		sets[op.Set].AddRange([]string{op.Name}, "/unused-work")
	case "addrange-rel":
		sets[op.Set].AddRange([]string{op.Name}, op.Work)
	case "perm":
		mode := []filehandler.FilePerm{filehandler.FilePermWrite, filehandler.FilePermRead, filehandler.FilePermStat}[op.Set]
		fs.AddFilePermission(op.Name, mode)
	}
}

// ---- the comparison -------------------------------------------------------------------------

type c18Case struct {
	Ops     []c18Op
	Queries []string
}

func c18Paths(maxDepth int, names []string) []string {
	var out []string
	var rec func(prefix string, d int)
	rec = func(prefix string, d int) {
		if d == maxDepth {
			return
		}
		for _, n := range names {
			p := prefix + "/" + n
			out = append(out, p)
			rec(p, d+1)
		}
	}
	rec("", 0)
	return out
}

func c18Expect(entries []c18Entry, q string) (w, r, s, ban bool, unspec [4]bool) {
	var c [4]bool
	for i := 0; i < 4; i++ {
		c[i], unspec[i] = c18CoveredBy(entries, i, q)
	}
	w = c[0]
	r = w || c[1]
	s = r || c[2]
	ban = c[3]
	unspec[1] = unspec[1] || unspec[0]
	unspec[2] = unspec[2] || unspec[1]
	return
}

func c18Run(c c18Case, rec *vh.Recorder) error {
	fs := filehandler.NewFileSets()
	var entries []c18Entry
	for _, op := range c.Ops {
		c18Apply(fs, op)
		entries = append(entries, c18ModelEntries(op)...)
	}
	h := &filehandler.Handler{FileSet: fs, SyscallCounter: filehandler.NewSyscallCounter()}
	for _, q := range c.Queries {
		w, r, s, ban, unspec := c18Expect(entries, q)
		type row struct {
			name   string
			got    bool
			want   bool
			unspec bool
		}
		rows := []row{
			{"IsWritableFile", fs.IsWritableFile(q), w, unspec[0]},
			{"IsReadableFile", fs.IsReadableFile(q), r, unspec[1]},
			{"IsStatableFile", fs.IsStatableFile(q), s, unspec[2]},
			{"IsSoftBanFile", fs.IsSoftBanFile(q), ban, unspec[3]},
		}
		for _, x := range rows {
			if x.unspec && !x.want {
				rec.Class("unspecified:/-vs-/*", 1)
				continue
			}
			if x.got != x.want {
				dir := "admits-uncovered"
				if x.want {
					dir = "refuses-covered"
				}
				return vh.Violf("C18:"+dir, "%s(%q)=%v, model %v; ops=%+v", x.name, q, x.got, x.want, c.Ops)
			}
		}
		// handler verdicts
		verdict := func(allowed, unsp bool) (ptracer.TraceAction, bool) {
			if allowed {
				return ptracer.TraceAllow, false
			}
			if unsp || unspec[3] {
				return 0, true
			}
			if ban {
				return ptracer.TraceBan, false
			}
			return ptracer.TraceKill, false
		}
		checks := []struct {
			name    string
			got     ptracer.TraceAction
			allowed bool
			unsp    bool
		}{
			{"CheckWrite", h.CheckWrite(q), w, unspec[0]},
			{"CheckRead", h.CheckRead(q), r, unspec[1]},
			{"CheckStat", h.CheckStat(q), s, unspec[2]},
		}
		for _, x := range checks {
			want, skip := verdict(x.allowed, x.unsp)
			if skip {
				continue
			}
			if x.got != want {
				return vh.Violf("C18:verdict", "%s(%q)=%v, model %v; ops=%+v", x.name, q, x.got, want, c.Ops)
			}
		}
		rec.Evals(7)
	}
	return nil
}

func c18NonTrivial(entries []c18Entry, q string) bool {
	par, ok := c18Parent(q)
	for _, e := range entries {
		switch e.Kind {
		case "dir":
			if strings.HasPrefix(q, e.D+"/") && q != e.D {
				return true
			}
		case "children":
			if ok && par == e.D {
				return true
			}
			// near misses: grandchild of d, or sibling of d
			if strings.HasPrefix(q, e.D+"/") {
				return true
			}
			if dp, ok2 := c18Parent(e.D); ok2 && ok && dp == par {
				return true
			}
		}
	}
	return false
}

func c18HostClean(t *testing.T) {
	for _, n := range []string{"/a", "/b", "/w8", "/nonexistent-vp"} {
		if _, err := os.Lstat(n); err == nil {
			t.Fatalf("INFRA: host has %s; C18's inert-realpath namespace is not available", n)
		}
	}
}

// TestC18Exhaustive enumerates every configuration of at most two entries (each in any of the four sets)
// against every query of depth <= 4 over {a,b}, plus "/" and "".
func TestC18Exhaustive(t *testing.T) {
	c18HostClean(t)
	rec := vh.NewRecorder(t, "C18", "exploration",
		"exhaustive part: all FileSets with <=2 entries (entry = path of depth<=D over {a,b} as exact, d/ or d/*, plus / and /*; each entry in any of the 4 sets) x all query paths of depth<=4 plus / and the empty path; D=3 quick, 4 thorough. "+
			"random part: <=8 API operations (Add, AddRange abs/rel, AddFilePermission) and 12 queries. counter part: tables name->n in -3..6 and call histories <=30. "+
			"non-trivial = query covered by a d/ or d/* entry at distance>=1, or a near miss (sibling/grandchild of a d/* entry); distinct = distinct (ops,queries) value")
	if vh.ReplayIfRequested(t, rec, func(c c18Case) error { return c18Run(c, rec) }) {
		return
	}
	defer rec.Write()
	depth := vh.Scale(3, 4)
	var universe []string
	for _, p := range c18Paths(depth, []string{"a", "b"}) {
		universe = append(universe, p, p+"/", p+"/*")
	}
	universe = append(universe, "/", "/*")
	queries := append(c18Paths(4, []string{"a", "b"}), "/", "")
	type ent struct {
		name string
		set  int
	}
	var all []ent
	for _, u := range universe {
		for s := 0; s < 4; s++ {
			all = append(all, ent{u, s})
		}
	}
	run := func(es []ent) {
		var c c18Case
		for _, e := range es {
			c.Ops = append(c.Ops, c18Op{API: "add", Set: e.set, Name: e.name})
		}
		c.Queries = queries
		var entries []c18Entry
		for _, op := range c.Ops {
			entries = append(entries, c18ModelEntries(op)...)
		}
		nt := false
		for _, q := range queries {
			if c18NonTrivial(entries, q) {
				nt = true
				break
			}
		}
		rec.Case(c.Ops, nt, fmt.Sprintf("entries=%d", len(es)))
		if err := c18Run(c, rec); err != nil {
			vh.Report(t, rec, c, err)
		}
	}
	run(nil)
	for i := range all {
		run([]ent{all[i]})
		if t.Failed() {
			return
		}
	}
	for i := range all {
		for j := i + 1; j < len(all); j++ {
			run([]ent{all[i], all[j]})
		}
		if t.Failed() {
			return
		}
	}
	rec.Sample(map[string]any{"ops": []c18Op{{API: "add", Set: 0, Name: "/a/*"}, {API: "add", Set: 3, Name: "/a/b/"}}, "queries": "all 32 paths of depth<=4 over {a,b}, /, \"\""})
	rec.SetExhaustive(true)
	rec.Extra("exhaustive_bound", fmt.Sprintf("<=2 entries over %d (entry,set) pairs x %d queries", len(all), len(queries)))
}

func c18GenCase(rt *rapid.T) c18Case {
	names := []string{"a", "b", "a", "b", "w8", strings.Repeat("L", 40)}
	comp := rapid.SampledFrom(names)
	path := func(label string) string {
		n := rapid.IntRange(1, 4).Draw(rt, label+"depth")
		p := ""
		for i := 0; i < n; i++ {
			p += "/" + comp.Draw(rt, label)
		}
		return p
	}
	var c c18Case
	nops := rapid.IntRange(0, 8).Draw(rt, "nops")
	for i := 0; i < nops; i++ {
		api := rapid.SampledFrom([]string{"add", "add", "addrange-abs", "addrange-rel", "perm"}).Draw(rt, "api")
		op := c18Op{API: api, Set: rapid.IntRange(0, 3).Draw(rt, "set")}
		switch api {
		case "add", "addrange-abs":
			k := rapid.IntRange(0, 9).Draw(rt, "kind")
			switch {
			case k == 0:
				op.Name = "/"
			case k == 1:
				op.Name = "/*"
			case k <= 4:
				op.Name = path("e") + "/"
			case k <= 6:
				op.Name = path("e") + "/*"
			default:
				op.Name = path("e")
			}
		case "addrange-rel":
			op.Work = path("w")
			op.Name = strings.TrimPrefix(path("r"), "/")
			if rapid.IntRange(0, 5).Draw(rt, "dot") == 0 {
				op.Name = "."
			}
		case "perm":
			op.Set = rapid.IntRange(0, 2).Draw(rt, "permset")
			op.Name = path("p")
			if rapid.IntRange(0, 9).Draw(rt, "permroot") == 0 {
				op.Name = "/"
			}
		}
		c.Ops = append(c.Ops, op)
	}
	nq := rapid.IntRange(1, 12).Draw(rt, "nq")
	for i := 0; i < nq; i++ {
		k := rapid.IntRange(0, 19).Draw(rt, "qk")
		switch {
		case k == 0:
			c.Queries = append(c.Queries, "")
		case k == 1:
			c.Queries = append(c.Queries, "/")
		case k <= 8 && len(c.Ops) > 0:
			// derive from an entry: the entry's directory, a child, a grandchild, a sibling
			op := c.Ops[rapid.IntRange(0, len(c.Ops)-1).Draw(rt, "from")]
			base := op.Name
			if op.API == "addrange-rel" {
				base = filepath.Join(op.Work, op.Name)
			}
			base = strings.TrimSuffix(strings.TrimSuffix(base, "/*"), "/")
			switch rapid.IntRange(0, 4).Draw(rt, "rel") {
			case 0:
				c.Queries = append(c.Queries, base)
			case 1:
				c.Queries = append(c.Queries, base+"/"+comp.Draw(rt, "c1"))
			case 2:
				c.Queries = append(c.Queries, base+"/"+comp.Draw(rt, "c1")+"/"+comp.Draw(rt, "c2"))
			case 3:
				if par, ok := c18Parent(base); ok {
					c.Queries = append(c.Queries, par+"/"+comp.Draw(rt, "sib"))
				} else {
					c.Queries = append(c.Queries, path("q"))
				}
			default:
				c.Queries = append(c.Queries, base+"x")
			}
		default:
			c.Queries = append(c.Queries, path("q"))
		}
	}
	for i, q := range c.Queries {
		if q == "" || q == "/" {
			continue
		}
		if !strings.HasPrefix(q, "/") {
			q = "/" + q // the tracer presents cleaned *absolute* paths (or the empty path)
		}
		c.Queries[i] = filepath.Clean(q)
	}
	return c
}

func TestC18Random(t *testing.T) {
	c18HostClean(t)
	rec := vh.NewRecorder(t, "C18", "exploration", "random FileSets: see TestC18Exhaustive rule")
	vh.Check(t, rec, c18GenCase, func(c c18Case) error {
		var entries []c18Entry
		for _, op := range c.Ops {
			entries = append(entries, c18ModelEntries(op)...)
		}
		nt := false
		for _, q := range c.Queries {
			if c18NonTrivial(entries, q) {
				nt = true
			}
		}
		rec.Case(c, nt, fmt.Sprintf("ops=%d", len(c.Ops)))
		if nt && rec.WantSample() {
			rec.Sample(c)
		}
		return c18Run(c, rec)
	})
}

// ---- raw-or-real cascade over a real forest with symlinks -----------------------------------

type c18ForestCase struct {
	Links   map[string]string // link name (under root) -> target (relative to root or absolute-under-root)
	Entries []c18Op           // names are relative to the forest root, "/" prefix added at run time
	Queries []string
}

func kernelRealPath(p string) string {
	fd, err := syscall.Open(p, syscall.O_RDONLY|0x200000 /*O_PATH*/ |syscall.O_CLOEXEC, 0)
	if err != nil {
		return ""
	}
	defer syscall.Close(fd)
	s, err := os.Readlink(fmt.Sprintf("/proc/self/fd/%d", fd))
	if err != nil {
		return ""
	}
	return s
}

func TestC18Forest(t *testing.T) {
	rec := vh.NewRecorder(t, "C18", "exploration", "forest part: a real temp tree d1/{f,g}, d2/{f}, symlinks with generated targets; entries and queries spelled through links; oracle: covered(raw) or covered(kernel-resolved real path)")
	root, err := vh.ScratchDir("c18")
	if err != nil {
		t.Fatalf("INFRA: %v", err)
	}
	defer os.RemoveAll(root)
	root, _ = filepath.EvalSymlinks(root)
	vh.Check(t, rec, func(rt *rapid.T) c18ForestCase {
		var c c18ForestCase
		c.Links = map[string]string{}
		targets := []string{"d1", "d2", "d1/f", "d2/f", "d1/g", "missing", "l0", "l1", "."}
		nl := rapid.IntRange(1, 3).Draw(rt, "nl")
		for i := 0; i < nl; i++ {
			c.Links[fmt.Sprintf("l%d", i)] = rapid.SampledFrom(targets).Draw(rt, "target")
		}
		names := []string{"d1", "d2", "d1/f", "d2/f", "d1/g", "l0", "l1", "l2", "l0/f", "l1/f", "l0/g", "nope", "d1/nope"}
		ne := rapid.IntRange(1, 4).Draw(rt, "ne")
		for i := 0; i < ne; i++ {
			n := rapid.SampledFrom(names).Draw(rt, "ename")
			suffix := rapid.SampledFrom([]string{"", "", "/", "/*"}).Draw(rt, "suffix")
			c.Entries = append(c.Entries, c18Op{API: "add", Set: rapid.IntRange(0, 3).Draw(rt, "set"), Name: n + suffix})
		}
		nq := rapid.IntRange(1, 8).Draw(rt, "nq")
		for i := 0; i < nq; i++ {
			c.Queries = append(c.Queries, rapid.SampledFrom(names).Draw(rt, "q"))
		}
		return c
	}, func(c c18ForestCase) error {
		// rebuild the forest
		ents, _ := os.ReadDir(root)
		for _, e := range ents {
			os.RemoveAll(filepath.Join(root, e.Name()))
		}
		for _, d := range []string{"d1", "d2"} {
			if err := os.Mkdir(filepath.Join(root, d), 0o755); err != nil {
				return vh.Infraf("mkdir: %v", err)
			}
		}
		for _, f := range []string{"d1/f", "d1/g", "d2/f"} {
			if err := os.WriteFile(filepath.Join(root, f), nil, 0o644); err != nil {
				return vh.Infraf("write: %v", err)
			}
		}
		var lnames []string
		for l := range c.Links {
			lnames = append(lnames, l)
		}
		sort.Strings(lnames)
		for _, l := range lnames {
			if err := os.Symlink(c.Links[l], filepath.Join(root, l)); err != nil {
				return vh.Infraf("symlink: %v", err)
			}
		}
		fs := filehandler.NewFileSets()
		var entries []c18Entry
		for _, op := range c.Entries {
			op.Name = root + "/" + op.Name
			c18Apply(fs, op)
			entries = append(entries, c18ModelEntries(op)...)
		}
		nt := false
		for _, q := range c.Queries {
			raw := root + "/" + q
			real := kernelRealPath(raw)
			if real != "" && real != raw {
				nt = true
			}
			cov := func(set int) bool {
				a, _ := c18CoveredBy(entries, set, raw)
				if a {
					return true
				}
				if real == "" {
					return false
				}
				b, _ := c18CoveredBy(entries, set, real)
				return b
			}
			w := cov(0)
			r := w || cov(1)
			s := r || cov(2)
			b := cov(3)
			got := []bool{fs.IsWritableFile(raw), fs.IsReadableFile(raw), fs.IsStatableFile(raw), fs.IsSoftBanFile(raw)}
			want := []bool{w, r, s, b}
			for i := range got {
				if got[i] != want[i] {
					return vh.Violf("C18:forest", "class %d query %q (real %q): got %v want %v; links=%v entries=%+v", i, raw, real, got[i], want[i], c.Links, c.Entries)
				}
			}
			rec.Evals(4)
		}
		rec.Case(c, nt)
		if nt && rec.WantSample() {
			rec.Sample(c)
		}
		return nil
	})
}

// ---- counters -------------------------------------------------------------------------------

type c18CounterCase struct {
	Table map[string]int
	Calls []string
	// tables loaded again later in the history (a handler re-armed for the next run, a default table overridden by a
	// per-language one): a call "@k" in Calls loads Reloads[k]; from then on the budget of every name in it is the value
	// just loaded
	Reloads []map[string]int `json:",omitempty"`
}

func TestC18Counter(t *testing.T) {
	rec := vh.NewRecorder(t, "C18", "exploration", "counter part: tables over 4 names with budgets in -3..6 (sometimes 2^40) and histories of <=30 calls incl. an uncounted name, half of them with 1..2 tables loaded again mid-history (AddRange or Add: the budget is then the value just loaded); non-trivial = some name is called more often than its budget")
	names := []string{"fork", "clone", "vfork", "socket"}
	vh.Check(t, rec, func(rt *rapid.T) c18CounterCase {
		c := c18CounterCase{Table: map[string]int{}}
		for _, n := range names {
			switch rapid.IntRange(0, 9).Draw(rt, "in") {
			case 0, 1:
			case 2:
				c.Table[n] = 1 << 40
			default:
				c.Table[n] = rapid.IntRange(-3, 6).Draw(rt, "n")
			}
		}
		nc := rapid.IntRange(0, 30).Draw(rt, "nc")
		for i := 0; i < nc; i++ {
			c.Calls = append(c.Calls, rapid.SampledFrom(append(names, "uncounted")).Draw(rt, "call"))
		}
		for nr := rapid.SampledFrom([]int{0, 0, 1, 2}).Draw(rt, "nreloads"); nr > 0 && len(c.Calls) > 0; nr-- {
			tb := map[string]int{}
			for _, n := range names {
				if rapid.Bool().Draw(rt, "rin") {
					tb[n] = rapid.IntRange(-1, 5).Draw(rt, "rn")
				}
			}
			at := rapid.IntRange(0, len(c.Calls)).Draw(rt, "rat")
			c.Calls = append(c.Calls[:at], append([]string{fmt.Sprintf("@%d", len(c.Reloads))}, c.Calls[at:]...)...)
			c.Reloads = append(c.Reloads, tb)
		}
		return c
	}, func(c c18CounterCase) error {
		sc := filehandler.NewSyscallCounter()
		// use both population APIs
		half := map[string]int{}
		i := 0
		var keys []string
		for k := range c.Table {
			keys = append(keys, k)
		}
		sort.Strings(keys)
		for _, k := range keys {
			if i%2 == 0 {
				sc.Add(k, c.Table[k])
			} else {
				half[k] = c.Table[k]
			}
			i++
		}
		sc.AddRange(half)
		h := &filehandler.Handler{FileSet: filehandler.NewFileSets(), SyscallCounter: sc}
		allowed := map[string]int{}
		refused := map[string]bool{}
		calls := map[string]int{}
		table := map[string]int{}
		for k, v := range c.Table {
			table[k] = v
		}
		reloaded := false
		for idx, name := range c.Calls {
			if strings.HasPrefix(name, "@") {
				var k int
				fmt.Sscanf(name, "@%d", &k)
				if k < len(c.Reloads) {
					if k%2 == 0 {
						sc.AddRange(c.Reloads[k])
					} else {
						for n, v := range c.Reloads[k] {
							sc.Add(n, v)
						}
					}
					for n, v := range c.Reloads[k] {
						table[n], allowed[n], refused[n] = v, 0, false
					}
					reloaded = true
				}
				continue
			}
			act := h.CheckSyscall(name)
			calls[name]++
			budget, counted := table[name]
			if !counted {
				if act != ptracer.TraceBan {
					return vh.Violf("C18:uncounted", "call %d %q uncounted: got %v want soft ban", idx, name, act)
				}
				continue
			}
			if act == ptracer.TraceAllow {
				if refused[name] {
					return vh.Violf("C18:counter-resurrect", "call %d %q allowed after a refusal (budget %d)", idx, name, budget)
				}
				allowed[name]++
				if max := budget; allowed[name] > max || budget <= 0 {
					return vh.Violf("C18:counter-budget", "call %d %q allowed %d times since its budget was last set to %d (history %v, reloads %v)", idx, name, allowed[name], budget, c.Calls[:idx+1], c.Reloads)
				}
			} else {
				refused[name] = true
			}
		}
		nt := false
		for n, k := range calls {
			if b, ok := c.Table[n]; ok && k > b {
				nt = true
			}
		}
		if reloaded {
			rec.Case(c, nt, "table-loaded-again-mid-history")
		} else {
			rec.Case(c, nt)
		}
		if nt && rec.WantSample() {
			rec.Sample(c)
		}
		return nil
	})
}

//go:build verif

package checks

// C20 — cgroup handles control exactly their own group; usage in documented units.

import (
	"bytes"
	"encoding/json"
	"fmt"
	"os"
	"os/exec"
	"path/filepath"
	"sort"
	"strconv"
	"strings"
	"sync"
	"sync/atomic"
	"syscall"
	"testing"

	"github.com/criyle/go-sandbox/pkg/cgroup"
	"pgregory.net/rapid"

	"verif/internal/probe"
	"verif/internal/vh"
)

type c20Op struct {
	Kind string // new child random nest addproc setmem setproc setcpu usage destroy external concurrent-random concurrent-new reopen
	H    int    // handle selector
	Name int    // name selector
	P    int    // parked child selector
	Val  uint64
	K    int
}

type c20Case struct {
	Ops []c20Op
	// v1: the controllers the caller asks for ("" = all five); e.g. "memory+pids" for somebody who only wants those limits
	Ctrl string `json:",omitempty"`
}

var c20Kinds = []string{"child", "child", "random", "random", "nest", "addproc", "addproc", "setmem", "setproc", "setcpu", "usage", "destroy", "destroy", "external", "external-partial", "concurrent-random", "concurrent-new", "reopen", "nest-existing", "openexisting", "openexisting", "open-destroy", "open-destroy", "addproc-multi", "external-first"}

func c20GenCase(rt *rapid.T) c20Case {
	var c c20Case
	n := rapid.IntRange(3, 18).Draw(rt, "n")
	for i := 0; i < n; i++ {
		c.Ops = append(c.Ops, c20Op{Kind: rapid.SampledFrom(c20Kinds).Draw(rt, "kind"), H: rapid.IntRange(0, 7).Draw(rt, "h"), Name: rapid.IntRange(0, 3).Draw(rt, "name"),
			P: rapid.IntRange(0, 2).Draw(rt, "p"), Val: rapid.SampledFrom([]uint64{32 << 20, 64<<20 + 123, 1 << 30, 1<<40 + 4095, 100, 1000}).Draw(rt, "val"), K: rapid.IntRange(2, 8).Draw(rt, "k")})
	}
	c.Ctrl = rapid.SampledFrom([]string{"", "", "", "memory+pids", "pids", "memory", "cpuacct+memory", "cpu+cpuacct+memory+pids"}).Draw(rt, "controllers")
	return c
}

type c20Handle struct {
	cg      cgroup.Cgroup
	path    string // relative to the hierarchy roots, e.g. verif-123-4/a
	created bool   // the model's view: this handle created the group
	dead    bool
}

type c20World struct {
	ctrls   []string // controller hierarchy directories to look at
	root    func(ctrl string) string
	unified bool
}

func (w *c20World) dir(ctrl, rel string) string { return filepath.Join(w.root(ctrl), rel) }

func (w *c20World) exists(rel string) (all bool, any bool) {
	all = true
	for _, c := range w.ctrls {
		if _, err := os.Stat(w.dir(c, rel)); err == nil {
			any = true
		} else {
			all = false
		}
	}
	return
}

var c20Seq atomic.Int64

func procCgroupOf(pid int) map[string]string {
	m := map[string]string{}
	b, _ := os.ReadFile(fmt.Sprintf("/proc/%d/cgroup", pid))
	for _, ln := range strings.Split(string(b), "\n") {
		f := strings.SplitN(ln, ":", 3)
		if len(f) == 3 {
			for _, c := range strings.Split(f[1], ",") {
				m[c] = f[2]
			}
		}
	}
	return m
}

// c20Run drives one history. mk creates the top group for a prefix; v1 tells which files to read limits back from.
func c20Run(c c20Case, w *c20World, v1 bool, rec *vh.Recorder) error {
	prefix := fmt.Sprintf("verif-c20-%d-%d", os.Getpid(), c20Seq.Add(1))
	ct := &cgroup.Controllers{CPU: true, CPUSet: true, CPUAcct: true, Memory: true, Pids: true}
	if !v1 {
		ct = &cgroup.Controllers{}
	}
	enabled := func(string) bool { return true }
	if v1 && c.Ctrl != "" {
		en := map[string]bool{}
		for _, n := range strings.Split(c.Ctrl, "+") {
			en[n] = true
		}
		enabled = func(n string) bool { return en[n] }
		ct = &cgroup.Controllers{CPU: en["cpu"], CPUSet: en["cpuset"], CPUAcct: en["cpuacct"], Memory: en["memory"], Pids: en["pids"]}
		ww := *w
		ww.ctrls = nil
		for _, x := range w.ctrls {
			if en[x] {
				ww.ctrls = append(ww.ctrls, x)
			}
		}
		if len(ww.ctrls) == 0 {
			return vh.Infraf("no hierarchy for controller set %q among %v", c.Ctrl, w.ctrls)
		}
		w = &ww
	}
	// deterministic, colliding random names
	var rnd atomic.Int64
	// 0, 0,1, 0,1,2, 0,1,2,3, ... : every value is proposed again later, so Random has to get past names that exist
	cgroup.VerifNextRandom = func() string {
		n := int(rnd.Add(1) - 1)
		k := 1
		for n >= k {
			n -= k
			k++
		}
		return strconv.Itoa(n % 6)
	}
	defer func() { cgroup.VerifNextRandom = nil }()

	// parked children
	var parked []*exec.Cmd
	defer func() {
		for _, p := range parked {
			p.Process.Kill()
			p.Wait()
		}
		// remove everything below the prefix, deepest first
		for _, ctrl := range w.ctrls {
			var dirs []string
			filepath.Walk(w.dir(ctrl, prefix), func(p string, fi os.FileInfo, err error) error {
				if err == nil && fi.IsDir() {
					dirs = append(dirs, p)
				}
				return nil
			})
			sort.Sort(sort.Reverse(sort.StringSlice(dirs)))
			for _, d := range dirs {
				syscall.Rmdir(d)
			}
		}
	}()
	for i := 0; i < 3; i++ {
		var s probe.Script
		// a multi-threaded target: adding the *process* must move every thread
		s.Add("thread{")
		s.Add("pause")
		s.Add("}")
		s.Add("thread{")
		s.Add("pause")
		s.Add("}")
		s.Add("pause")
		cmd := exec.Command(probe.Path(), s.Argv(newTag(), 2)[1:]...)
		if err := cmd.Start(); err != nil {
			return vh.Infraf("parked child: %v", err)
		}
		parked = append(parked, cmd)
	}
	where := map[int]string{} // parked index -> group path ("" = untouched)

	top, err := cgroup.New(prefix, ct)
	if err != nil {
		if v1 && c.Ctrl != "" {
			return vh.Violf("C20:new-failed-for-controller-subset", "cgroup.New(%s, {%s}) on hierarchies that all exist: %v", prefix, c.Ctrl, err)
		}
		return vh.Infraf("cgroup.New(%s): %v", prefix, err)
	}
	handles := []*c20Handle{{cg: top, path: prefix, created: true}}
	external := map[string]bool{}
	partial := map[string]bool{} // absolute directories created externally in some hierarchies only
	creators := map[string]int{} // path -> index of the handle that created it
	creators[prefix] = 0
	names := []string{"a", "b", "c", "d"}
	desc := func(i int, op c20Op) string { return fmt.Sprintf("op #%d %+v (history %+v)", i, op, c.Ops[:i+1]) }
	live := func(sel int) *c20Handle {
		var l []*c20Handle
		for _, h := range handles {
			if !h.dead {
				l = append(l, h)
			}
		}
		if len(l) == 0 {
			return nil
		}
		return l[sel%len(l)]
	}
	hasChildren := func(rel string) bool {
		for _, ctrl := range w.ctrls {
			ents, _ := os.ReadDir(w.dir(ctrl, rel))
			for _, e := range ents {
				if e.IsDir() {
					return true
				}
			}
		}
		return false
	}
	members := func(rel string) []int {
		var ps []int
		for i, g := range where {
			if g == rel {
				ps = append(ps, i)
			}
		}
		return ps
	}
	nt := false
	var classes []string
	checkNewHandle := func(i int, op c20Op, h cgroup.Cgroup, rel string, existedBefore bool, mustBeNew bool) error {
		all, _ := w.exists(rel)
		if !all {
			return vh.Violf("C20:group-missing", "%s: returned handle for %s but the directory does not exist in every hierarchy", desc(i, op), rel)
		}
		if mustBeNew && (existedBefore || h.Existing()) {
			return vh.Violf("C20:random-returned-existing", "%s: Random returned group %s which existed before (Existing()=%v): not a distinct new group", desc(i, op), rel, h.Existing())
		}
		if h.Existing() != existedBefore {
			return vh.Violf("C20:existing-flag", "%s: group %s existed before=%v but handle.Existing()=%v", desc(i, op), rel, existedBefore, h.Existing())
		}
		return nil
	}
	listDirs := func(rel string) map[string]bool {
		m := map[string]bool{}
		ents, _ := os.ReadDir(w.dir(w.ctrls[0], rel))
		for _, e := range ents {
			if e.IsDir() {
				m[e.Name()] = true
			}
		}
		return m
	}
	for i, op := range c.Ops {
		h := live(op.H)
		if h == nil {
			break
		}
		switch op.Kind {
		case "external-partial":
			// the group exists already in some controller hierarchies only (not in the first one)
			if !v1 {
				continue
			}
			rel := filepath.Join(h.path, names[op.Name])
			if _, any := w.exists(rel); any {
				continue
			}
			if len(w.ctrls) < 2 {
				continue // a single hierarchy cannot hold a group "partially"
			}
			for _, ctrl := range w.ctrls[len(w.ctrls)-min(2, len(w.ctrls)-1):] {
				if err := os.Mkdir(w.dir(ctrl, rel), 0o755); err != nil {
					return vh.Infraf("external mkdir: %v", err)
				}
				partial[w.dir(ctrl, rel)] = true
			}
			nt = true
			classes = append(classes, "partially-pre-existing")
			if op.K%2 == 0 {
				// straight away: a handle created on top of it, then destroyed
				nh, err := h.cg.New(names[op.Name])
				if err != nil {
					return vh.Violf("C20:new-failed", "%s: New on a partially pre-existing group: %v", desc(i, op), err)
				}
				nh.Destroy()
			}
		case "external":
			rel := filepath.Join(h.path, "ext"+names[op.Name])
			if op.K%3 == 0 {
				rel = filepath.Join(h.path, "nest"+names[op.Name]) // a later Nest finds its name taken
			}
			if _, any := w.exists(rel); any {
				continue
			}
			for _, ctrl := range w.ctrls {
				if err := os.Mkdir(w.dir(ctrl, rel), 0o755); err != nil {
					return vh.Infraf("external mkdir: %v", err)
				}
			}
			external[rel] = true
		case "child", "reopen":
			name := names[op.Name]
			if op.Kind == "reopen" || op.Name == 3 {
				name = "ext" + names[op.Name%3]
			}
			rel := filepath.Join(h.path, name)
			_, existed := w.exists(rel)
			isPartial := false
			for d := range partial {
				if strings.HasSuffix(d, "/"+rel) {
					isPartial = true
				}
			}
			nh, err := h.cg.New(name)
			if err != nil {
				return vh.Violf("C20:new-failed", "%s: New(%q): %v", desc(i, op), name, err)
			}
			if isPartial {
				existed = nh.Existing() // which hierarchy decides is the library's choice; only Destroy's effect is judged
			}
			if err := checkNewHandle(i, op, nh, rel, existed, false); err != nil {
				return err
			}
			handles = append(handles, &c20Handle{cg: nh, path: rel, created: !existed})
			if !existed {
				creators[rel] = len(handles) - 1
			} else {
				nt = true
				classes = append(classes, "opened-pre-existing")
			}
		case "openexisting":
			// a second handle on a live group by its full name; or on a name that does not exist (must be an error)
			rel := h.path
			if op.K%4 == 0 {
				rel = filepath.Join(h.path, "never-made")
			}
			_, any := w.exists(rel)
			nh, err := cgroup.OpenExisting(rel, ct)
			if !any {
				if err == nil {
					return vh.Violf("C20:openexisting-of-nothing", "%s: OpenExisting(%q) succeeded although no such group exists", desc(i, op), rel)
				}
				continue
			}
			if isPartialRel(partial, rel) {
				continue // exists in some hierarchies only: either answer is the library's choice
			}
			if err != nil {
				return vh.Violf("C20:openexisting-failed", "%s: OpenExisting(%q) of an existing group: %v", desc(i, op), rel, err)
			}
			if nh == nil {
				return vh.Violf("C20:openexisting-nil-handle", "%s: OpenExisting(%q) returned neither a handle nor an error", desc(i, op), rel)
			}
			if err := checkNewHandle(i, op, nh, rel, true, false); err != nil {
				return err
			}
			handles = append(handles, &c20Handle{cg: nh, path: rel, created: false})
			nt = true
			classes = append(classes, "openexisting")
		case "open-destroy":
			// somebody who only looks at a group: OpenExisting, then Destroy of that handle. The group was made by someone
			// else (a live creating handle of this history, or from outside) and must still be there afterwards.
			if h.path == prefix || hasChildren(h.path) || len(members(h.path)) > 0 || isPartialRel(partial, h.path) {
				continue
			}
			if all, _ := w.exists(h.path); !all {
				continue
			}
			nh, err := cgroup.OpenExisting(h.path, ct)
			if err != nil || nh == nil {
				return vh.Violf("C20:openexisting-failed", "%s: OpenExisting(%q) of an existing group: %v", desc(i, op), h.path, err)
			}
			derr := nh.Destroy()
			if all, _ := w.exists(h.path); !all {
				return vh.Violf("C20:destroyed-pre-existing", "%s: Destroy (err %v) of a handle obtained with OpenExisting(%q) removed the group, which this handle did not create", desc(i, op), derr, h.path)
			}
			nt = true
			classes = append(classes, "open-then-destroy-leaves-the-group")
		case "random":
			before := listDirs(h.path)
			nh, err := h.cg.Random("r*x")
			if err != nil {
				if len(before) >= 6 {
					continue // every name of the narrowed source is taken
				}
				return vh.Violf("C20:random-failed", "%s: Random: %v", desc(i, op), err)
			}
			after := listDirs(h.path)
			var fresh []string
			for n := range after {
				if !before[n] {
					fresh = append(fresh, n)
				}
			}
			if len(fresh) != 1 {
				return vh.Violf("C20:random-returned-existing", "%s: Random reported success but %d new directories appeared under %s (before %v after %v): the handle refers to a group that already existed", desc(i, op), len(fresh), h.path, keys(before), keys(after))
			}
			rel := filepath.Join(h.path, fresh[0])
			if err := checkNewHandle(i, op, nh, rel, false, true); err != nil {
				return err
			}
			if len(before) > 0 {
				classes = append(classes, "random-with-collisions")
				nt = true
			}
			handles = append(handles, &c20Handle{cg: nh, path: rel, created: true})
			creators[rel] = len(handles) - 1
		case "concurrent-random", "concurrent-new":
			nt = true
			classes = append(classes, op.Kind)
			before := listDirs(h.path)
			type res struct {
				cg  cgroup.Cgroup
				err error
			}
			out := make([]res, op.K)
			var wg sync.WaitGroup
			start := make(chan struct{})
			name := "cc" + names[op.Name]
			deep := v1 && op.Kind == "concurrent-new" && op.Val%2 == 0
			if deep {
				// a multi-level name whose parent does not exist yet (v1 creates parents; v2 refuses such names)
				name = fmt.Sprintf("ccdeep%d-%s/leaf", i, names[op.Name])
				classes = append(classes, "concurrent-new/missing-parent")
			}
			for k := 0; k < op.K; k++ {
				wg.Add(1)
				go func(k int) {
					defer wg.Done()
					<-start
					if op.Kind == "concurrent-random" {
						out[k].cg, out[k].err = h.cg.Random("cr*")
					} else {
						out[k].cg, out[k].err = h.cg.New(name)
					}
				}(k)
			}
			close(start)
			wg.Wait()
			after := listDirs(h.path)
			fresh := 0
			for n := range after {
				if !before[n] {
					fresh++
				}
			}
			created := 0
			for _, r := range out {
				if r.err == nil && r.cg != nil && !r.cg.Existing() {
					created++
				}
			}
			if deep {
				fresh = 0
				if all, _ := w.exists(filepath.Join(h.path, name)); all {
					fresh = 1
				}
			}
			if created > fresh {
				key := "C20:concurrent-creators-not-distinct"
				return vh.Violf(key, "%s: %d concurrent callers were each told they created a new group, but only %d new directories appeared under %s", desc(i, op), created, fresh, h.path)
			}
			// adopt the handles (at most one per directory as creator)
			seen := map[string]bool{}
			for _, r := range out {
				if r.err != nil || r.cg == nil {
					continue
				}
				_ = seen
			}
			// the created groups are cleaned up by the deferred sweep; they are not used further
		case "nest", "nest-existing":
			ms := members(h.path)
			if len(ms) == 0 && op.Kind == "nest" {
				continue
			}
			name := "nest" + names[op.Name]
			rel := filepath.Join(h.path, name)
			if _, any := w.exists(rel); !any && op.Kind == "nest-existing" {
				// somebody else made a group of that name first
				for _, ctrl := range w.ctrls {
					if err := os.Mkdir(w.dir(ctrl, rel), 0o755); err != nil {
						return vh.Infraf("external mkdir: %v", err)
					}
				}
				external[rel] = true
			}
			_, existed := w.exists(rel)
			nh, err := h.cg.Nest(name)
			if err != nil {
				return vh.Violf("C20:nest-failed", "%s: Nest(%q) with members %v: %v", desc(i, op), name, ms, err)
			}
			if err := checkNewHandle(i, op, nh, rel, existed, false); err != nil {
				return err
			}
			handles = append(handles, &c20Handle{cg: nh, path: rel, created: !existed})
			if !existed {
				creators[rel] = len(handles) - 1
			} else {
				nt = true
				classes = append(classes, "nest-onto-pre-existing")
			}
			for _, m := range ms {
				where[m] = rel
			}
		case "addproc-multi":
			// several pids in one call, the first of which has exited meanwhile: either the call reports an error, or every
			// living process of the call is in the group afterwards
			dead := exec.Command("/bin/true")
			if err := dead.Run(); err != nil {
				continue
			}
			p := op.P % len(parked)
			err := h.cg.AddProc(dead.Process.Pid, parked[p].Process.Pid)
			if err != nil {
				// how far it got is the library's business: re-read where the living one is now
				cgs := procCgroupOf(parked[p].Process.Pid)
				key := w.ctrls[0]
				if w.unified {
					key = ""
				}
				if g := strings.TrimPrefix(cgs[key], "/"); g == h.path {
					where[p] = h.path
				}
				classes = append(classes, "addproc-with-a-vanished-pid:error-reported")
				continue
			}
			if hasChildren(h.path) && !v1 {
				continue
			}
			where[p] = h.path // checked by the invariant below: every thread of it must be there
			nt = true
			classes = append(classes, "addproc-with-a-vanished-pid:nil-returned")
		case "external-first":
			// the name exists already in the FIRST controller hierarchy only (somebody with fewer controllers made it):
			// a handle made over it did not create that group and must not remove it
			if !v1 || len(w.ctrls) < 2 {
				continue
			}
			rel := filepath.Join(h.path, names[op.Name])
			if _, any := w.exists(rel); any {
				continue
			}
			first := w.dir(w.ctrls[0], rel)
			if err := os.Mkdir(first, 0o755); err != nil {
				return vh.Infraf("external mkdir: %v", err)
			}
			partial[first] = true
			nh, err := h.cg.New(names[op.Name])
			if err == nil && nh != nil {
				nh.Destroy()
			}
			if _, serr := os.Stat(first); serr != nil {
				return vh.Violf("C20:destroyed-pre-existing", "%s: %s existed before (made from outside, in the first hierarchy only); New(%q) over it (err %v) followed by Destroy removed it", desc(i, op), first, names[op.Name], err)
			}
			// leave the model clean: remove what this op made
			for _, ctrl := range w.ctrls {
				syscall.Rmdir(w.dir(ctrl, rel))
			}
			delete(partial, first)
			nt = true
			classes = append(classes, "pre-existing-in-the-first-hierarchy-only")
		case "addproc":
			p := op.P % len(parked)
			if err := h.cg.AddProc(parked[p].Process.Pid); err != nil {
				if hasChildren(h.path) && !v1 {
					continue // v2: no internal processes
				}
				return vh.Violf("C20:addproc-failed", "%s: AddProc: %v", desc(i, op), err)
			}
			where[p] = h.path
			if !h.created {
				classes = append(classes, "addproc-on-pre-existing-handle")
			}
		case "setmem", "setproc", "setcpu":
			if !v1 {
				continue
			}
			if !enabled(map[string]string{"setmem": "memory", "setproc": "pids", "setcpu": "cpu"}[op.Kind]) {
				continue // the caller did not ask for that controller
			}
			var err error
			var file string
			var want string
			switch op.Kind {
			case "setmem":
				if op.Val < 1<<20 {
					op.Val += 32 << 20 // a few KiB of memory limit makes the kernel refuse child groups (ENOMEM): not the library's doing
				}
				err = h.cg.SetMemoryLimit(op.Val)
				file, want = "memory/memory.limit_in_bytes", strconv.FormatUint(op.Val/4096*4096, 10)
			case "setproc":
				err = h.cg.SetProcLimit(op.Val)
				file, want = "pids/pids.max", strconv.FormatUint(op.Val, 10)
			case "setcpu":
				err = h.cg.SetCPUBandwidth(50000, 100000)
				file, want = "cpu/cpu.cfs_quota_us", "50000"
			}
			if err != nil {
				// a child limit above its parent's is refused by the kernel for some controllers; not judged
				classes = append(classes, "limit-refused-by-kernel")
				continue
			}
			parts := strings.SplitN(file, "/", 2)
			b, rerr := os.ReadFile(filepath.Join(w.dir(parts[0], h.path), parts[1]))
			if rerr != nil || strings.TrimSpace(string(b)) != want {
				return vh.Violf("C20:limit-not-in-force", "%s: %s reads %q (%v) after setting %d, want %s", desc(i, op), file, strings.TrimSpace(string(b)), rerr, op.Val, want)
			}
		case "usage":
			if _, err := h.cg.CPUUsage(); err != nil && v1 && enabled("cpuacct") {
				return vh.Violf("C20:reader-failed", "%s: CPUUsage: %v", desc(i, op), err)
			}
			if _, err := h.cg.MemoryUsage(); err != nil && v1 && enabled("memory") {
				return vh.Violf("C20:reader-failed", "%s: MemoryUsage: %v", desc(i, op), err)
			}
			ps, err := h.cg.Processes()
			if err != nil {
				return vh.Violf("C20:reader-failed", "%s: Processes() on a %s handle: %v", desc(i, op), map[bool]string{true: "creating", false: "pre-existing"}[h.created], err)
			}
			var wantPs []int
			for _, m := range members(h.path) {
				wantPs = append(wantPs, parked[m].Process.Pid)
			}
			sort.Ints(wantPs)
			sort.Ints(ps)
			if fmt.Sprint(ps) != fmt.Sprint(wantPs) {
				return vh.Violf("C20:members", "%s: Processes() = %v, model %v", desc(i, op), ps, wantPs)
			}
		case "destroy":
			if h.path == prefix || hasChildren(h.path) || len(members(h.path)) > 0 {
				continue
			}
			err := h.cg.Destroy()
			h.dead = true
			_, any := w.exists(h.path)
			switch {
			case external[h.path] && !any:
				return vh.Violf("C20:destroyed-pre-existing", "%s: Destroy of a handle on the externally created group %s removed it", desc(i, op), h.path)
			case !h.created && !any && creators[h.path] >= 0:
				if _, hadCreator := creators[h.path]; hadCreator && !handles[creators[h.path]].dead {
					return vh.Violf("C20:destroyed-pre-existing", "%s: Destroy of a handle that merely opened %s removed the group although its creator is still alive", desc(i, op), h.path)
				}
			case h.created && any && !isPartialRel(partial, h.path):
				return vh.Violf("C20:destroy-left-group", "%s: Destroy (err %v) of the creating handle left %s behind", desc(i, op), err, h.path)
			}
			if !any {
				// all handles on that path are dead now
				for _, o := range handles {
					if o.path == h.path {
						o.dead = true
					}
				}
			}
			if !h.created {
				nt = true
				classes = append(classes, "destroy-of-opening-handle")
			}
		}
		// invariant: every parked child is where the model says, in every hierarchy
		for p, cmd := range parked {
			g, moved := where[p]
			if !moved {
				continue
			}
			tasks, _ := os.ReadDir(fmt.Sprintf("/proc/%d/task", cmd.Process.Pid))
			for _, tk := range tasks {
				tid, _ := strconv.Atoi(tk.Name())
				tcg := procCgroupOfTask(cmd.Process.Pid, tid)
				for _, ctrl := range w.ctrls {
					key := ctrl
					if w.unified {
						key = ""
					}
					if got := tcg[key]; got != "/"+g {
						return vh.Violf("C20:process-not-moved/thread", "%s: thread %d of parked child %d should be in /%s for controller %q but is in %q: AddProc moved only part of the process", desc(i, op), tid, p, g, ctrl, got)
					}
				}
			}
			cgs := procCgroupOf(cmd.Process.Pid)
			for _, ctrl := range w.ctrls {
				key := ctrl
				if w.unified {
					key = ""
				}
				if got := cgs[key]; got != "/"+g {
					k := "C20:process-not-moved"
					if !handleCreated(handles, g) {
						k = "C20:process-not-moved/pre-existing-handle"
					}
					return vh.Violf(k, "%s: parked child %d should be in /%s for controller %q but /proc/pid/cgroup says %q", desc(i, op), p, g, ctrl, got)
				}
			}
		}
		for d := range partial {
			if _, err := os.Stat(d); err != nil {
				return vh.Violf("C20:destroyed-pre-existing", "%s: the externally created controller group %s disappeared", desc(i, op), d)
			}
		}
		// externally created groups are never removed
		for rel := range external {
			if all, _ := w.exists(rel); !all {
				return vh.Violf("C20:destroyed-pre-existing", "%s: the externally created group %s disappeared", desc(i, op), rel)
			}
		}
	}
	if v1 {
		classes = append(classes, "controllers="+map[bool]string{true: "all", false: c.Ctrl}[c.Ctrl == ""])
	}
	rec.Case(c, nt, dedup(classes)...)
	rec.Evals(len(c.Ops))
	if nt && rec.WantSample() {
		rec.Sample(c)
	}
	return nil
}

func procCgroupOfTask(pid, tid int) map[string]string {
	m := map[string]string{}
	b, _ := os.ReadFile(fmt.Sprintf("/proc/%d/task/%d/cgroup", pid, tid))
	for _, ln := range strings.Split(string(b), "\n") {
		f := strings.SplitN(ln, ":", 3)
		if len(f) == 3 {
			for _, c := range strings.Split(f[1], ",") {
				m[c] = f[2]
			}
		}
	}
	return m
}

func isPartialRel(partial map[string]bool, rel string) bool {
	for d := range partial {
		if strings.HasSuffix(d, "/"+rel) {
			return true
		}
	}
	return false
}

func handleCreated(hs []*c20Handle, path string) bool {
	for _, h := range hs {
		if h.path == path && h.created {
			return true
		}
	}
	return false
}

const c20Rule = "case = history of 3..18 operations over a tree of groups under a unique prefix: New(child) / re-open of existing and externally pre-created groups, Random (random-name source narrowed to 6 values so collisions occur), Nest, AddProc of parked helper processes, SetMemoryLimit/SetProcLimit/SetCPUBandwidth with read-back, usage readers and Processes(), Destroy of creating and of merely-opening handles, external mkdir, 2..8 goroutines calling Random / New(sameName) simultaneously; " +
	"oracle = model tree with createdBy: created handles are distinct existing directories, Existing() tells the truth, Destroy removes the group iff the handle created it, externally created groups survive, /proc/<pid>/cgroup of every parked child names the model's group in every controller hierarchy, limits read back from the kernel files; non-trivial = a pre-existing group was opened, or a name collision, or concurrent creators"

func TestC20V1(t *testing.T) {
	rec := vh.NewRecorder(t, "C20", "exploration", c20Rule)
	if cgroup.DetectedCgroupType != cgroup.TypeV1 {
		t.Skip("host hierarchy is not v1")
	}
	w := &c20World{ctrls: []string{"cpu", "cpuset", "cpuacct", "memory", "pids"}, root: func(c string) string { return "/sys/fs/cgroup/" + c }}
	vh.Check(t, rec, c20GenCase, func(c c20Case) error { return c20Run(c, w, true, rec) })
}

// ---- units: a real workload in a real v1 group -------------------------------------------------------------------

func TestC20Units(t *testing.T) {
	rec := vh.NewRecorder(t, "C20", "exploration", "units part: a helper burns ~250 ms CPU and touches 48 MiB inside a fresh v1 group; CPUUsage() must be in [1e8, 1e11] (nanoseconds; microseconds would read 2.5e5) and MemoryMaxUsage() in [48 MiB, 96 MiB] (bytes)")
	defer rec.Write()
	if cgroup.DetectedCgroupType != cgroup.TypeV1 {
		t.Skip("host hierarchy is not v1")
	}
	for round := 0; round < vh.Scale(2, 6); round++ {
		prefix := fmt.Sprintf("verif-c20u-%d-%d", os.Getpid(), round)
		cg, err := cgroup.New(prefix, &cgroup.Controllers{CPU: true, CPUSet: true, CPUAcct: true, Memory: true, Pids: true})
		if err != nil {
			t.Fatalf("INFRA: %v", err)
		}
		pr, pw, _ := os.Pipe()
		var s probe.Script
		s.Add("waitgo:0")
		s.Add("spin:250")
		s.Add("touch:48")
		s.Add("exit:0")
		cmd := exec.Command(probe.Path(), s.Argv(newTag(), 2)[1:]...)
		cmd.Stdin = pr
		if err := cmd.Start(); err != nil {
			t.Fatalf("INFRA: %v", err)
		}
		pr.Close()
		if err := cg.AddProc(cmd.Process.Pid); err != nil {
			vh.Report(t, rec, round, vh.Violf("C20:addproc-failed", "%v", err))
		}
		pw.Write([]byte{1})
		pw.Close()
		cmd.Wait()
		cpu, err1 := cg.CPUUsage()
		mem, err2 := cg.MemoryMaxUsage()
		cg.Destroy()
		rec.Case(round, true, "units")
		if err1 != nil || err2 != nil {
			vh.Report(t, rec, round, vh.Violf("C20:reader-failed", "CPUUsage %v MemoryMaxUsage %v", err1, err2))
			continue
		}
		if cpu < 100_000_000 || cpu > 100_000_000_000 { // microseconds would read ~2.5e5; the upper bound only has to exclude a finer unit (a loaded machine adds kernel time)
			vh.Report(t, rec, round, vh.Violf("C20:units", "CPUUsage() = %d for ~250 ms of CPU: not nanoseconds", cpu))
		}
		if mem < 48<<20 || mem > 96<<20 {
			vh.Report(t, rec, round, vh.Violf("C20:units", "MemoryMaxUsage() = %d for 48 MiB touched: not bytes", mem))
		}
		rec.Sample(map[string]any{"cpu_ns": cpu, "mem_bytes": mem})
	}
}

// ---- v2 readers over a fake tree ----------------------------------------------------------------------------------

type c20FCase struct {
	CPUStat   []string // lines
	Peak      string
	PidsPeak  string
	Current   string
	OmitCPU   bool
	OmitPeak  bool
	UsageUsec uint64
	HasUsage  bool
}

func TestC20Fake(t *testing.T) {
	rec := vh.NewRecorder(t, "C20", "exploration", "fake-tree part: cgroup v2 readers over a directory with generated file contents (cpu.stat with usage_usec at a random position, extra fields and lines, values up to 2^63/1000; memory.peak / pids.peak / memory.current with values up to 2^64-1, trailing whitespace, garbage, or missing); result must be usage_usec*1000, the exact integer, or an error - never a panic or another unit; non-trivial = value >= 2^32 or a malformed/missing file")
	dir, err := vh.ScratchDir("c20f")
	if err != nil {
		t.Fatalf("INFRA: %v", err)
	}
	defer os.RemoveAll(dir)
	num := func(rt *rapid.T, label string) uint64 {
		return rapid.OneOf(rapid.Uint64Range(0, 1000), rapid.Uint64Range(0, 1<<40), rapid.SampledFrom([]uint64{1<<32 - 1, 1 << 32, 1<<63 - 1, 1 << 63, 1<<64 - 1})).Draw(rt, label)
	}
	vh.Check(t, rec, func(rt *rapid.T) c20FCase {
		var c c20FCase
		c.HasUsage = rapid.IntRange(0, 5).Draw(rt, "hasusage") != 0
		c.UsageUsec = rapid.OneOf(rapid.Uint64Range(0, 1<<20), rapid.Uint64Range(0, 1<<53)).Draw(rt, "usage")
		lines := []string{"user_usec 12", "system_usec 7", "nr_periods 0", "nr_throttled 0", "throttled_usec 0", "core_sched.force_idle_usec 0", "usage_usec_extra 5 6", ""}
		n := rapid.IntRange(0, 6).Draw(rt, "nlines")
		for i := 0; i < n; i++ {
			c.CPUStat = append(c.CPUStat, rapid.SampledFrom(lines).Draw(rt, "line"))
		}
		if c.HasUsage {
			pos := rapid.IntRange(0, len(c.CPUStat)).Draw(rt, "pos")
			l := fmt.Sprintf("usage_usec %d", c.UsageUsec)
			c.CPUStat = append(c.CPUStat[:pos], append([]string{l}, c.CPUStat[pos:]...)...)
		}
		val := func(label string) string {
			switch rapid.IntRange(0, 7).Draw(rt, label+"k") {
			case 0:
				return "max"
			case 1:
				return ""
			case 2:
				return fmt.Sprintf("%d \n", num(rt, label))
			case 3:
				return fmt.Sprintf("-%d\n", num(rt, label)%1000+1)
			default:
				return fmt.Sprintf("%d\n", num(rt, label))
			}
		}
		c.Peak, c.PidsPeak, c.Current = val("peak"), val("pidspeak"), val("current")
		c.OmitCPU = rapid.IntRange(0, 7).Draw(rt, "omitcpu") == 0
		c.OmitPeak = rapid.IntRange(0, 7).Draw(rt, "omitpeak") == 0
		return c
	}, func(c c20FCase) error {
		os.RemoveAll(filepath.Join(dir, "g"))
		g := filepath.Join(dir, "g")
		os.Mkdir(g, 0o755)
		if !c.OmitCPU {
			os.WriteFile(filepath.Join(g, "cpu.stat"), []byte(strings.Join(c.CPUStat, "\n")+"\n"), 0o644)
		}
		if !c.OmitPeak {
			os.WriteFile(filepath.Join(g, "memory.peak"), []byte(c.Peak), 0o644)
			os.WriteFile(filepath.Join(g, "pids.peak"), []byte(c.PidsPeak), 0o644)
		}
		os.WriteFile(filepath.Join(g, "memory.current"), []byte(c.Current), 0o644)
		cg := cgroup.VerifV2At(g, &cgroup.Controllers{CPU: true, Memory: true, Pids: true})
		desc := fmt.Sprintf("%+v", c)
		nt := c.OmitCPU || c.OmitPeak || !c.HasUsage
		cpu, err := cg.CPUUsage()
		if c.OmitCPU || !c.HasUsage {
			if err == nil {
				return vh.Violf("C20:fake-reader", "CPUUsage() = %d without a usage_usec line; %s", cpu, desc)
			}
		} else if err != nil || cpu != c.UsageUsec*1000 {
			return vh.Violf("C20:units", "CPUUsage() = %d, %v; cpu.stat says usage_usec %d => %d ns; %s", cpu, err, c.UsageUsec, c.UsageUsec*1000, desc)
		}
		check := func(name, content string, omitted bool, f func() (uint64, error)) error {
			got, err := f()
			want, perr := strconv.ParseUint(strings.TrimSpace(content), 10, 64)
			if omitted || perr != nil {
				nt = true
				if err == nil {
					return vh.Violf("C20:fake-reader", "%s() = %d from content %q (omitted=%v): expected an error; %s", name, got, content, omitted, desc)
				}
				return nil
			}
			if want >= 1<<32 {
				nt = true
			}
			if err != nil || got != want {
				return vh.Violf("C20:units", "%s() = %d, %v; the file says %d; %s", name, got, err, want, desc)
			}
			return nil
		}
		if err := check("MemoryMaxUsage", c.Peak, c.OmitPeak, cg.MemoryMaxUsage); err != nil {
			return err
		}
		if err := check("ProcessPeak", c.PidsPeak, c.OmitPeak, cg.ProcessPeak); err != nil {
			return err
		}
		if err := check("MemoryUsage", c.Current, false, cg.MemoryUsage); err != nil {
			return err
		}
		// writers produce what the kernel expects
		if err := cg.SetMemoryLimit(c.UsageUsec); err == nil {
			b, _ := os.ReadFile(filepath.Join(g, "memory.max"))
			if strings.TrimSpace(string(b)) != strconv.FormatUint(c.UsageUsec, 10) {
				return vh.Violf("C20:limit-not-in-force", "memory.max contains %q after SetMemoryLimit(%d)", b, c.UsageUsec)
			}
		}
		if err := cg.SetCPUBandwidth(c.UsageUsec%100000+1000, 100000); err == nil {
			b, _ := os.ReadFile(filepath.Join(g, "cpu.max"))
			if strings.TrimSpace(string(b)) != fmt.Sprintf("%d 100000", c.UsageUsec%100000+1000) {
				return vh.Violf("C20:limit-not-in-force", "cpu.max contains %q", b)
			}
		}
		rec.Case(c, nt, "fake-v2")
		if nt && rec.WantSample() {
			rec.Sample(c)
		}
		return nil
	})
}

// ---- real cgroup v2 hierarchy in a private mount namespace -----------------------------------------------------------

type c20V2Result struct {
	Infra      string
	Key        string
	Detail     string
	Type       string
	Classes    map[string]int
	NonTrivial bool
}

func init() {
	roles["cgroupv2"] = func() {
		// stage 1: we were started in a new mount namespace; put cgroup2 on /sys/fs/cgroup and re-exec so that the
		// library's package-level detection sees it
		if err := syscall.Mount("none", "/sys/fs/cgroup", "cgroup2", 0, ""); err != nil {
			b, _ := json.Marshal(c20V2Result{Infra: "mount cgroup2: " + err.Error()})
			os.Stdout.Write(b)
			return
		}
		self, _ := os.Executable()
		env := append([]string{}, os.Environ()...)
		for i, e := range env {
			if strings.HasPrefix(e, "VERIF_ROLE=") {
				env[i] = "VERIF_ROLE=cgroupv2-stage2"
			}
		}
		syscall.Exec(self, os.Args, env)
	}
	roles["cgroupv2-stage2"] = func() {
		var res c20V2Result
		res.Type = cgroup.DetectedCgroupType.String()
		var c c20Case
		if err := json.NewDecoder(os.Stdin).Decode(&c); err != nil {
			res.Infra = "decode: " + err.Error()
		} else if cgroup.DetectedCgroupType != cgroup.TypeV2 {
			res.Infra = "library did not detect v2"
		} else {
			w := &c20World{ctrls: []string{""}, root: func(string) string { return "/sys/fs/cgroup" }, unified: true}
			rec := vh.NewDetachedRecorder("C20")
			err := c20Run(c, w, false, rec)
			res.Classes = rec.Classes()
			if err != nil {
				if v, ok := err.(*vh.Violation); ok {
					res.Key, res.Detail = v.Key, v.Detail
				} else {
					res.Infra = err.Error()
				}
			}
		}
		b, _ := json.Marshal(res)
		os.Stdout.Write(b)
	}
}

func TestC20V2(t *testing.T) {
	rec := vh.NewRecorder(t, "C20", "exploration", "v2 part: the same histories against a real cgroup2 mount in a private mount namespace (helper process, second-stage re-exec so that the library detects v2); only the group-tree part (no v2 controllers are available on this machine)")
	rec.Assume("memory.max / pids.max / cpu.max enforcement on real cgroup2 is not observable here (controllers are bound to the v1 hierarchies); written values are checked on a fake tree")
	self, err := os.Executable()
	if err != nil {
		t.Fatalf("INFRA: %v", err)
	}
	vh.Check(t, rec, c20GenCase, func(c c20Case) error {
		in, _ := json.Marshal(c)
		cmd := exec.Command(self)
		cmd.Env = append(os.Environ(), "VERIF_ROLE=cgroupv2")
		cmd.Stdin = bytes.NewReader(in)
		cmd.SysProcAttr = &syscall.SysProcAttr{Unshareflags: syscall.CLONE_NEWNS}
		var out, errb bytes.Buffer
		cmd.Stdout, cmd.Stderr = &out, &errb
		if err := cmd.Run(); err != nil {
			return vh.Infraf("v2 helper: %v: %s", err, errb.String())
		}
		var res c20V2Result
		if err := json.Unmarshal(out.Bytes(), &res); err != nil {
			return vh.Infraf("v2 helper output %q %q", out.String(), errb.String())
		}
		if res.Infra != "" {
			return vh.Infraf("v2 helper: %s", res.Infra)
		}
		if res.Key != "" {
			return vh.Violf(res.Key+"/v2", "%s", res.Detail)
		}
		nt := false
		var classes []string
		for k := range res.Classes {
			classes = append(classes, "v2:"+k)
			nt = true
		}
		rec.Case(c, nt, classes...)
		if nt && rec.WantSample() {
			rec.Sample(c)
		}
		return nil
	})
}

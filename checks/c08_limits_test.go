package checks

// C08 — configured limits are in force; exhausting them yields the matching verdict; capped collectors behave.

import (
	"bytes"
	"fmt"
	"golang.org/x/sys/unix"
	"os"
	"os/exec"
	"strings"
	"sync"
	"syscall"
	"testing"
	"time"

	"github.com/criyle/go-sandbox/container"
	"github.com/criyle/go-sandbox/pkg/pipe"
	"github.com/criyle/go-sandbox/pkg/rlimit"
	"github.com/criyle/go-sandbox/pkg/seccomp/libseccomp"
	"github.com/criyle/go-sandbox/runner"
	"pgregory.net/rapid"

	"verif/internal/probe"
	"verif/internal/vh"
)

type c08LimCase struct {
	Runner string
	Ls     []rlimit.RLimits // consecutive launches (on one container environment for the container runner)
	// >0: one more listed descriptor, numbered >= HighFd in the launcher (a long-running judge's pipes are numbered in the
	// hundreds) - it may well be above the RLIMIT_NOFILE the program is to run under
	HighFd int `json:",omitempty"`
}

func c08Allow() []string {
	return append([]string{"prlimit64", "getrlimit", "fork", "clone", "execve", "execveat", "open", "openat", "memfd_create", "kill"}, probeBaseAllow...)
}

// resource number -> field description, as documented in rlimit.RLimits
func c08Expected(l rlimit.RLimits) map[int][2]uint64 {
	m := map[int][2]uint64{}
	if l.CPU > 0 {
		h := l.CPUHard
		if h < l.CPU {
			h = l.CPU
		}
		m[syscall.RLIMIT_CPU] = [2]uint64{l.CPU, h}
	}
	if l.Data > 0 {
		m[syscall.RLIMIT_DATA] = [2]uint64{l.Data, l.Data}
	}
	if l.FileSize > 0 {
		m[syscall.RLIMIT_FSIZE] = [2]uint64{l.FileSize, l.FileSize}
	}
	if l.Stack > 0 {
		m[syscall.RLIMIT_STACK] = [2]uint64{l.Stack, l.Stack}
	}
	if l.AddressSpace > 0 {
		m[syscall.RLIMIT_AS] = [2]uint64{l.AddressSpace, l.AddressSpace}
	}
	if l.OpenFile > 0 {
		m[syscall.RLIMIT_NOFILE] = [2]uint64{l.OpenFile, l.OpenFile}
	}
	if l.DisableCore {
		m[syscall.RLIMIT_CORE] = [2]uint64{0, 0}
	}
	return m
}

func ownLimits() map[int][2]uint64 {
	m := map[int][2]uint64{}
	for r := 0; r < 16; r++ {
		var l syscall.Rlimit
		if err := prlimit(0, r, nil, &l); err == nil {
			m[r] = [2]uint64{l.Cur, l.Max}
		}
	}
	return m
}

func prlimit(pid, res int, newl, old *syscall.Rlimit) error {
	return unixPrlimit(pid, res, newl, old)
}

func c08GenLimits(rt *rapid.T) rlimit.RLimits {
	val := func(label string, min, max uint64) uint64 {
		k := rapid.IntRange(0, 9).Draw(rt, label+"k")
		switch {
		case k <= 2:
			return 0
		case k == 3:
			return rapid.SampledFrom([]uint64{1 << 32, 1<<32 + 1, 1<<32 - 1, 1 << 40, 1<<40 + 12345, 1<<63 - 1}).Draw(rt, label+"big")
		default:
			return rapid.Uint64Range(min, max).Draw(rt, label)
		}
	}
	clamp := func(v, min, max uint64) uint64 {
		if v == 0 {
			return 0
		}
		if v < min {
			return min
		}
		if v > max {
			return max
		}
		return v
	}
	var l rlimit.RLimits
	l.CPU = clamp(val("cpu", 1, 100000), 1, 1<<63-1)
	switch rapid.IntRange(0, 3).Draw(rt, "cpuhard") {
	case 0:
		l.CPUHard = 0
	case 1:
		l.CPUHard = l.CPU
	case 2:
		l.CPUHard = l.CPU + rapid.Uint64Range(1, 1000).Draw(rt, "cpuhardplus")
	default:
		if l.CPU > 1 {
			l.CPUHard = l.CPU - 1 // below the soft limit: documented to be raised to CPU
		}
	}
	l.Data = clamp(val("data", 1<<20, 1<<34), 1<<16, 1<<63-1)
	l.FileSize = clamp(val("fsize", 0, 1<<34), 1, 1<<63-1)
	l.Stack = clamp(val("stack", 1<<20, 1<<30), 1<<20, 1<<63-1)
	l.AddressSpace = clamp(val("as", 1<<26, 1<<36), 1<<26, 1<<63-1)
	l.OpenFile = clamp(val("nofile", 16, 20000), 16, 20000) // the hard limit of this machine cannot be raised (no CAP_SYS_RESOURCE)
	l.DisableCore = rapid.Bool().Draw(rt, "nocore")
	if rapid.IntRange(0, 7).Draw(rt, "rejected") == 0 {
		l.OpenFile = 1 << 33 // above fs.nr_open: the kernel refuses this record (EPERM) whoever asks
	}
	return l
}

type c08Env struct{ c09Env }

func TestC08RLimits(t *testing.T) {
	rec := vh.NewRecorder(t, "C08", "exploration",
		"rlimit part: RLimits records (each field zero/non-zero, CPUHard below/equal/above CPU, values around 2^32 and 2^40 and 2^63-1, DisableCore; one case in three lists one more descriptor numbered >= 40/100/300/900 in the launcher and uses NOFILE values of 16..256, i.e. below that number) x runner in {ptrace, unshare, container}; the probe's getrlimit report of all 16 resources must equal PrepareRLimit() for configured resources (soft and hard, 64-bit exact) and the launcher's own limits for all others; non-trivial = >=2 limits configured with soft != hard or a value >= 2^32")
	own := ownLimits()
	vh.Check(t, rec, func(rt *rapid.T) c08LimCase {
		c := c08LimCase{Runner: rapid.SampledFrom([]string{"ptrace", "unshare", "container", "container"}).Draw(rt, "runner")}
		n := rapid.IntRange(1, 3).Draw(rt, "launches")
		for i := 0; i < n; i++ {
			c.Ls = append(c.Ls, c08GenLimits(rt))
		}
		if rapid.IntRange(0, 2).Draw(rt, "highfd") == 0 {
			c.HighFd = rapid.SampledFrom([]int{40, 100, 300, 900}).Draw(rt, "highfdnum")
			for i := range c.Ls {
				if c.Ls[i].OpenFile <= 20000 && rapid.Bool().Draw(rt, "lownofile") {
					c.Ls[i].OpenFile = rapid.SampledFrom([]uint64{16, 24, 32, 64, 256}).Draw(rt, "nofile-low")
				}
			}
		}
		return c
	}, func(cc c08LimCase) error {
		ce := &c09Env{}
		defer ce.close()
		var extra []*os.File
		if cc.HighFd > 0 {
			nfd, err := unix.FcntlInt(devNullFile().Fd(), unix.F_DUPFD_CLOEXEC, cc.HighFd)
			if err != nil {
				return vh.Infraf("dup to >= %d: %v", cc.HighFd, err)
			}
			hf := os.NewFile(uintptr(nfd), "high-numbered")
			defer hf.Close()
			extra = []*os.File{hf}
		}
		for li, lim := range cc.Ls {
			c := struct {
				Runner string
				L      rlimit.RLimits
			}{cc.Runner, lim}
			var s probe.Script
			s.Add("report:limits")
			s.Add("exit:0")
			filter, err := buildFilter(c08Allow(), nil, libseccomp.ActionKill)
			if err != nil {
				return vh.Infraf("filter: %v", err)
			}
			rl := c.L.PrepareRLimit()
			var tr *tracedResult
			switch c.Runner {
			case "ptrace":
				tr, err = runTraced(tracedOpts{Script: &s, Filter: filter, Handler: &recHandler{}, RLimits: rl, Extra: extra})
			case "unshare":
				tr, err = runUnshare(sandboxOpts{Script: &s, Filter: filter, RLimits: rl, Extra: extra})
			default:
				var env container.Environment
				env, err = ce.get()
				if err != nil {
					return err
				}
				tr, err = runContainer(sandboxOpts{Script: &s, Filter: filter, RLimits: rl, Env: env, Extra: extra})
			}
			if err != nil {
				return err
			}
			if cc.HighFd > 0 && c.L.OpenFile > 0 && c.L.OpenFile <= uint64(cc.HighFd) {
				rec.Class("listed-descriptor-numbered-above-the-configured-NOFILE", 1)
			}
			if tr.Hung {
				killTagged(tr.Tag)
				ce.close()
				return vh.Violf("C08:hung", "%+v", c)
			}
			if c.L.OpenFile > 20000 {
				// a record the kernel refuses: the program must not run with that limit silently missing
				if len(tr.Report.Limits) > 0 || tr.Result.Status == runner.StatusNormal {
					return vh.Violf("C08:ran-without-limit", "%+v: RLIMIT_NOFILE=%d is refused by the kernel, yet the program ran (status %v, it reports NOFILE=%v)", c, c.L.OpenFile, tr.Result.Status, tr.Report.Limits[syscall.RLIMIT_NOFILE])
				}
				rec.Case([]any{cc, li}, true, "runner="+c.Runner, "rejected-record", fmt.Sprintf("rejected-record-last=%v", !c.L.DisableCore))
				continue
			}
			if tr.Result.Status != runner.StatusNormal {
				return vh.Violf("C08:launch", "%+v: status %v exit %d error %q for limits the kernel accepts", c, tr.Result.Status, tr.Result.ExitStatus, tr.Result.Error)
			}
			want := c08Expected(c.L)
			nconf := 0
			big := false
			for r := 0; r < 16; r++ {
				got, ok := tr.Report.Limits[r]
				if !ok {
					return vh.Violf("C08:no-report", "resource %d missing in report %q", r, tr.Report.Raw)
				}
				if w, conf := want[r]; conf {
					nconf++
					if w[0] >= 1<<32 || w[1] >= 1<<32 || w[0] != w[1] {
						big = true
					}
					if got != w {
						return vh.Violf("C08:rlimit-value", "%s: resource %d is soft=%d hard=%d, configured soft=%d hard=%d (%+v)", c.Runner, r, got[0], got[1], w[0], w[1], c.L)
					}
				} else if got != own[r] {
					return vh.Violf("C08:rlimit-inherit", "%s: unconfigured resource %d is %v, launcher has %v (%+v)", c.Runner, r, got, own[r], c.L)
				}
			}
			rec.Case([]any{cc, li}, nconf >= 2 && big, "runner="+c.Runner, fmt.Sprintf("configured=%d", nconf), fmt.Sprintf("launch#%d", li))
			rec.Evals(16)
			if nconf >= 2 && big && rec.WantSample() {
				rec.Sample(cc)
			}
		}
		return nil
	})
}

// ---- verdicts for exhausted limits ----------------------------------------------------------------

type c08VCase struct {
	Runner   string
	Workload string // cpu-rlimit | cpu-hard-rlimit | fsize | timelimit | memlimit | below
	// how the program ends after the workload: "" = exit 0, "exit3", "segv" (a real fault): a program over the runner's
	// bound is Time/Memory Limit Exceeded however it ends
	Ending string `json:",omitempty"`
	// the limit is tripped by a second thread while the main thread sleeps (the kernel sends SIGXFSZ to the writing thread
	// and the process-wide SIGXCPU to a running one)
	Thread bool `json:",omitempty"`
}

func c08RunVerdict(c c08VCase, ce *c09Env, mu *sync.Mutex) (runner.Result, *probe.Report, error) {
	var s probe.Script
	var rl rlimit.RLimits
	lim := runner.Limit{TimeLimit: 30 * time.Second, MemoryLimit: 1 << 30}
	var out *os.File
	switch c.Workload {
	case "cpu-rlimit":
		rl.CPU, rl.CPUHard = 1, 3
		if c.Thread {
			s.Add("thread{")
			s.Add("spin:2500")
			s.Add("}")
			s.Add("sleep:6000")
		} else {
			s.Add("spin:2500")
		}
	case "cpu-hard-rlimit":
		rl.CPU, rl.CPUHard = 1, 2
		s.Add("sigign") // SIGXCPU ignored: the hard limit's SIGKILL ends it
		s.Add("spin:4000")
	case "fsize":
		rl.FileSize = 4096
		f, err := os.CreateTemp(vh.Getenv("VERIF_SCRATCH", "/var/tmp"), "c08out")
		if err != nil {
			return runner.Result{}, nil, vh.Infraf("%v", err)
		}
		defer os.Remove(f.Name())
		defer f.Close()
		out = f
		if c.Thread {
			s.Add("thread{")
			s.Add("grow:1:100000:1000")
			s.Add("}")
			s.Add("sleep:3000")
		} else {
			s.Add("grow:1:100000:1000")
		}
	case "timelimit":
		lim.TimeLimit = 100 * time.Millisecond
		s.Add("spin:400")
	case "memlimit":
		lim.MemoryLimit = 32 << 20
		s.Add("touch:96")
	case "below":
		rl.CPU, rl.FileSize = 5, 1<<20
		lim.TimeLimit = 2 * time.Second
		lim.MemoryLimit = 256 << 20
		s.Add("spin:20")
		s.Add("touch:8")
	}
	switch c.Ending {
	case "exit3":
		s.Add("exit:3")
	case "segv":
		s.Add("fault:segv")
	}
	s.Add("exit:0")
	filter, err := buildFilter(c08Allow(), nil, libseccomp.ActionKill)
	if err != nil {
		return runner.Result{}, nil, vh.Infraf("filter: %v", err)
	}
	var tr *tracedResult
	switch c.Runner {
	case "ptrace":
		tr, err = runTraced(tracedOpts{Script: &s, Filter: filter, Handler: &recHandler{}, RLimits: rl.PrepareRLimit(), Limit: lim, Stdout: out, Timeout: 40 * time.Second})
	case "unshare":
		tr, err = runUnshare(sandboxOpts{Script: &s, Filter: filter, RLimits: rl.PrepareRLimit(), Limit: lim, Stdout: out, Timeout: 40 * time.Second})
	default:
		mu.Lock()
		env, root, berr := buildContainer(nil) // one environment per concurrent case
		mu.Unlock()
		if berr != nil {
			return runner.Result{}, nil, vh.Infraf("container: %v", berr)
		}
		defer os.RemoveAll(root)
		defer env.Destroy()
		tr, err = runContainer(sandboxOpts{Script: &s, Filter: filter, RLimits: rl.PrepareRLimit(), Env: env, Stdout: out, Timeout: 40 * time.Second})
	}
	if err != nil {
		return runner.Result{}, nil, err
	}
	if tr.Hung {
		killTagged(tr.Tag)
		return runner.Result{}, nil, vh.Violf("C08:hung", "%+v did not return in 40s", c)
	}
	return tr.Result, tr.Report, nil
}

func c08CheckVerdict(c c08VCase, res runner.Result) error {
	bad := func(want string) error {
		return vh.Violf("C08:verdict", "%+v: got %q exit %d time %v mem %v err %q, want %s", c, res.Status.String(), res.ExitStatus, res.Time, res.Memory, res.Error, want)
	}
	switch c.Workload {
	case "cpu-rlimit", "cpu-hard-rlimit":
		if c.Runner == "unshare" && c.Workload == "cpu-rlimit" {
			// pid-namespace init: SIGXCPU with default disposition is dropped; the hard limit's SIGKILL (3 s) would be TLE,
			// but the program finishes its 2.5 s first. Either ending is the kernel's doing; only "not a crash verdict".
			if res.Status != runner.StatusNormal && res.Status != runner.StatusTimeLimitExceeded {
				return bad("Normal or Time Limit Exceeded")
			}
			return nil
		}
		if res.Status != runner.StatusTimeLimitExceeded {
			return bad("Time Limit Exceeded")
		}
	case "fsize":
		if c.Runner == "unshare" {
			if res.Status != runner.StatusNormal && res.Status != runner.StatusOutputLimitExceeded {
				return bad("Normal (EFBIG) or Output Limit Exceeded")
			}
			return nil
		}
		if res.Status != runner.StatusOutputLimitExceeded {
			return bad("Output Limit Exceeded")
		}
	case "timelimit":
		if c.Runner == "container" {
			return nil // Execve has no time bound of its own
		}
		if res.Status != runner.StatusTimeLimitExceeded {
			return bad("Time Limit Exceeded")
		}
		if res.Time < 200*time.Millisecond {
			return vh.Violf("C08:measurement", "%+v: TLE reported with Time=%v for a program that burnt 400ms", c, res.Time)
		}
	case "memlimit":
		if c.Runner == "container" {
			return nil
		}
		if res.Status != runner.StatusMemoryLimitExceeded {
			return bad("Memory Limit Exceeded")
		}
		if res.Memory < 80<<20 { // ru_maxrss is sampled by the kernel with per-cpu batching: allow slack
			return vh.Violf("C08:measurement", "%+v: MLE reported with Memory=%v for a program that touched 96 MiB", c, res.Memory)
		}
	case "below":
		if res.Status != runner.StatusNormal {
			return bad("Normal")
		}
		if res.Memory < 6<<20 || res.Memory > 64<<20 { // ru_maxrss slack, see memlimit
			return vh.Violf("C08:measurement", "%+v: Memory=%v for a program that touched 8 MiB", c, res.Memory)
		}
	}
	return nil
}

func TestC08Verdicts(t *testing.T) {
	rec := vh.NewRecorder(t, "C08", "exploration",
		"verdict part: runner in {ptrace, unshare, container} x workload in {spin past RLIMIT_CPU soft, spin past the hard limit with SIGXCPU ignored, write past RLIMIT_FSIZE (both also from a second thread while the main thread sleeps), spin 400ms under a 100ms runner time bound, touch 96 MiB under a 32 MiB runner memory bound, stay far below all bounds} x (for the two runner bounds) ending in {exit 0, exit 3, real SIGSEGV}; expected Time/Output/Memory Limit Exceeded resp. Normal with plausible measurements (margins >=3x); rows the kernel does not produce for a pid-namespace init are relaxed")
	ce := &c09Env{}
	defer ce.close()
	var mu sync.Mutex
	if vh.ReplayIfRequested(t, rec, func(c c08VCase) error {
		res, _, err := c08RunVerdict(c, ce, &mu)
		if err != nil {
			return err
		}
		return c08CheckVerdict(c, res)
	}) {
		return
	}
	defer rec.Write()
	var cases []c08VCase
	runners := []string{"ptrace", "unshare", "container"}
	if v := os.Getenv("C08_RUNNERS"); v != "" {
		runners = strings.Split(v, ",")
	}
	for _, r := range runners {
		for _, w := range []string{"cpu-rlimit", "cpu-hard-rlimit", "fsize", "timelimit", "memlimit", "below"} {
			cases = append(cases, c08VCase{Runner: r, Workload: w})
		}
		for _, w := range []string{"cpu-rlimit", "fsize"} {
			cases = append(cases, c08VCase{Runner: r, Workload: w, Thread: true})
		}
		if r != "container" { // Execve has no time/memory bound of its own
			for _, w := range []string{"timelimit", "memlimit"} {
				for _, e := range []string{"exit3", "segv"} {
					cases = append(cases, c08VCase{Runner: r, Workload: w, Ending: e})
				}
			}
		}
	}
	reps := vh.Scale(1, 3)
	type out struct {
		c   c08VCase
		err error
	}
	ch := make(chan out, len(cases)*reps)
	sem := make(chan struct{}, 8)
	var wg sync.WaitGroup
	for rep := 0; rep < reps; rep++ {
		for _, c := range cases {
			wg.Add(1)
			go func(c c08VCase) {
				defer wg.Done()
				sem <- struct{}{}
				defer func() { <-sem }()
				res, _, err := c08RunVerdict(c, ce, &mu)
				if err == nil {
					err = c08CheckVerdict(c, res)
				}
				ch <- out{c, err}
			}(c)
		}
	}
	wg.Wait()
	close(ch)
	for o := range ch {
		rec.Case(o.c, o.c.Workload != "below", "runner="+o.c.Runner, "workload="+o.c.Workload, "ending="+map[string]string{"": "exit0"}[o.c.Ending]+o.c.Ending, fmt.Sprintf("limit-tripped-by-second-thread=%v", o.c.Thread))
		if o.err != nil {
			vh.Report(t, rec, o.c, o.err)
		}
	}
	rec.Sample(cases[0])
	rec.Sample(cases[8])
}

// ---- pipe.Buffer -------------------------------------------------------------------------------------

type c08BufCase struct {
	Max    int64
	Total  int64
	Chunk  int
	Writer string // goroutine | process
	Delay  bool   // start writing before anybody could have read (writer faster than reader)
}

func TestC08Buffer(t *testing.T) {
	rec := vh.NewRecorder(t, "C08", "exploration",
		"buffer part: pipe.NewBuffer(N), N in 0..200000, fed by a goroutine or by a real process (vprobe with fd 1 = Buffer.W) writing total in {0, N-1, N, N+1, N+2, 10N, up to 8 MiB} bytes in chunks of 1..65536; Buffer.Len()==min(total,N+1), the retained bytes are the prefix, every write returned its full length without error, Done closes; non-trivial = total > N")
	vh.Check(t, rec, func(rt *rapid.T) c08BufCase {
		c := c08BufCase{Writer: rapid.SampledFrom([]string{"goroutine", "goroutine", "process"}).Draw(rt, "writer")}
		c.Max = rapid.OneOf(rapid.Int64Range(0, 16), rapid.Int64Range(0, 5000), rapid.Int64Range(60000, 70000), rapid.Int64Range(0, 200000)).Draw(rt, "max")
		switch rapid.IntRange(0, 8).Draw(rt, "tk") {
		case 0:
			c.Total = 0
		case 1:
			c.Total = c.Max - 1
		case 2:
			c.Total = c.Max
		case 3:
			c.Total = c.Max + 1
		case 4:
			c.Total = c.Max + 2
		case 5:
			c.Total = c.Max * 10
		case 6:
			c.Total = rapid.Int64Range(1<<20, 8<<20).Draw(rt, "huge")
		default:
			c.Total = rapid.Int64Range(0, 300000).Draw(rt, "total")
		}
		if c.Total < 0 {
			c.Total = 0
		}
		c.Chunk = rapid.OneOf(rapid.IntRange(1, 16), rapid.IntRange(1, 65536), rapid.SampledFrom([]int{4096, 65536, 1, 4095, 4097})).Draw(rt, "chunk")
		if c.Total/int64(c.Chunk) > 200000 {
			c.Chunk = int(c.Total/200000) + 1
		}
		return c
	}, func(c c08BufCase) error {
		b, err := pipe.NewBuffer(c.Max)
		if err != nil {
			return vh.Infraf("NewBuffer: %v", err)
		}
		var werr error
		switch c.Writer {
		case "goroutine":
			chunk := make([]byte, c.Chunk)
			var pos int64
			for pos < c.Total {
				n := int64(c.Chunk)
				if c.Total-pos < n {
					n = c.Total - pos
				}
				for i := int64(0); i < n; i++ {
					chunk[i] = byte((pos + i) % 251)
				}
				m, err := b.W.Write(chunk[:n])
				if err != nil || int64(m) != n {
					werr = fmt.Errorf("write at %d returned %d, %v", pos, m, err)
					break
				}
				pos += n
			}
		case "process":
			var s probe.Script
			g := s.Add(fmt.Sprintf("grow:1:%d:%d", c.Total, c.Chunk))
			s.Add("exit:0")
			pr, pw, err := os.Pipe()
			if err != nil {
				return vh.Infraf("pipe: %v", err)
			}
			cmd := exec.Command(probe.Path(), s.Argv(newTag(), 3)[1:]...)
			cmd.Stdout = b.W
			cmd.ExtraFiles = []*os.File{pw}
			var rbuf bytes.Buffer
			done := make(chan struct{})
			go func() { rbuf.ReadFrom(pr); close(done) }()
			err = cmd.Start()
			pw.Close()
			if err != nil {
				pr.Close()
				return vh.Infraf("start vprobe: %v", err)
			}
			waitErr := make(chan error, 1)
			go func() { waitErr <- cmd.Wait() }()
			select {
			case err = <-waitErr:
			case <-time.After(30 * time.Second):
				cmd.Process.Kill()
				<-waitErr
				pr.Close()
				return vh.Violf("C08:buffer-blocks-writer", "writer still running after 30s: %+v", c)
			}
			<-done
			pr.Close()
			rep := probe.Parse(rbuf.Bytes())
			if err != nil {
				werr = fmt.Errorf("writer ended with %v", err)
			} else if rep.R[g] != c.Total {
				werr = fmt.Errorf("writer wrote %d of %d (negative = errno)", rep.R[g], c.Total)
			} else if w := rep.Writes[g]; w[1] != 0 {
				werr = fmt.Errorf("%d short writes", w[1])
			}
		}
		b.W.Close()
		if werr != nil {
			return vh.Violf("C08:buffer-breaks-writer", "%v; %+v", werr, c)
		}
		select {
		case <-b.Done:
		case <-time.After(10 * time.Second):
			return vh.Violf("C08:buffer-done", "Done not closed 10s after the writer closed; %+v", c)
		}
		want := c.Total
		if want > c.Max+1 {
			want = c.Max + 1
		}
		if int64(b.Buffer.Len()) != want {
			return vh.Violf("C08:buffer-length", "retained %d bytes, want min(total=%d, max+1=%d); %+v", b.Buffer.Len(), c.Total, c.Max+1, c)
		}
		data := b.Buffer.Bytes()
		for i, x := range data {
			w := byte(int64(i) % 251)
			if c.Writer == "process" {
				w = 'x'
			}
			if x != w {
				return vh.Violf("C08:buffer-content", "byte %d is %d want %d; %+v", i, x, w, c)
			}
		}
		rec.Case(c, c.Total > c.Max, "writer="+c.Writer)
		if c.Total > c.Max && rec.WantSample() {
			rec.Sample(c)
		}
		return nil
	})
}

//go:build verif

package checks

// C13, third part: the parameters of one Execve do not linger into the next one on the same pooled environment.

import (
	"context"
	"fmt"
	"os"
	"sort"
	"strings"
	"sync"
	"syscall"
	"testing"

	"github.com/criyle/go-sandbox/container"
	"github.com/criyle/go-sandbox/pkg/mount"
	"github.com/criyle/go-sandbox/pkg/rlimit"
	"github.com/criyle/go-sandbox/pkg/seccomp"
	"github.com/criyle/go-sandbox/pkg/seccomp/libseccomp"
	"github.com/criyle/go-sandbox/runner"
	"pgregory.net/rapid"

	"verif/internal/probe"
	"verif/internal/vh"
)

type c13PRun struct {
	NoFile    uint64 // 0 = not configured
	CPU       uint64
	Core      bool // RLIMIT_CORE = 0 configured
	ExecFd    bool // executable passed as descriptor (else by path)
	NExtra    int  // descriptors beyond stdio + report
	NEnv      int  // environment entries
	SyncAfter bool
	Filter    bool
}

type c13PCase struct{ Runs []c13PRun }

func TestC13Params(t *testing.T) { c13ParamsTest(t, "C13", false) }

// TestC19Commands: the same histories read as a statement about the control socket's consumer: a command whose fields
// are empty after one whose fields were set must arrive as sent (gob leaves out zero fields; a receiver that decodes
// into a value it used before keeps the old ones).
func TestC19Commands(t *testing.T) { c13ParamsTest(t, "C19", false) }

// TestC17Params: the calls of one case are issued at the same time from several goroutines on one environment (the
// environment serialises them in some order); each must run with exactly its own parameters, as when issued alone.
func TestC17Params(t *testing.T) { c13ParamsTest(t, "C17", true) }

func c13ParamsTest(t *testing.T, id string, concurrent bool) {
	how := "consecutive"
	if concurrent {
		how = "concurrent (one goroutine each, one environment)"
	}
	rec := vh.NewRecorder(t, id, "exploration",
		"parameter part ("+how+" calls): 2..6 consecutive Execve calls on one pooled environment whose parameters differ (rlimit records present/absent, executable by descriptor/by path, 0..3 extra descriptors, 0..3 environment entries, seccomp filter present/absent, sync before/after exec); the program reports its 16 rlimits, its descriptor table and /proc/self/environ; oracle: every run sees exactly its own parameters - configured limits exact, all others as in a run on the fresh environment, descriptors 0..3+extra and nothing else, the environment given; non-trivial = a run that leaves out something its predecessor configured")
	mb := mount.NewDefaultBuilder().WithTmpfs("w", "").WithProc().WithBind("/dev/null", "dev/null", false).WithBind(probe.Path(), "vprobe", true)
	env, root, err := buildContainer(&container.Builder{Mounts: mb.FilterNotExist().Mounts, WorkDir: "/w"})
	if err != nil {
		t.Fatalf("INFRA: build: %v", err)
	}
	defer os.RemoveAll(root)
	defer env.Destroy()
	dn := devNullFile()
	runOne := func(r c13PRun) (runner.Result, *probe.Report, error) {
		rp, err := newReportPipe()
		if err != nil {
			return runner.Result{}, nil, err
		}
		var s probe.Script
		s.Add("report:limits")
		s.Add("report:fds")
		ci := s.Add("cat:" + s.Str("/proc/self/environ"))
		_ = ci
		s.Add("exit:0")
		files := []uintptr{dn.Fd(), dn.Fd(), dn.Fd(), rp.pw.Fd()}
		for k := 0; k < r.NExtra; k++ {
			files = append(files, dn.Fd())
		}
		argv := s.Argv(newTag(), 3)
		argv[0] = "/vprobe"
		p := container.ExecveParam{Args: argv, Files: files, SyncAfterExec: r.SyncAfter}
		for k := 0; k < r.NEnv; k++ {
			p.Env = append(p.Env, fmt.Sprintf("E%d=v%d", k, k))
		}
		if r.ExecFd {
			if p.ExecFile, err = probeExecFd(); err != nil {
				rp.finish()
				return runner.Result{}, nil, err
			}
		}
		var rl rlimit.RLimits
		rl.OpenFile, rl.CPU, rl.DisableCore = r.NoFile, r.CPU, r.Core
		p.RLimits = rl.PrepareRLimit()
		if r.Filter {
			var f seccomp.Filter
			if f, err = buildFilter(nil, nil, libseccomp.ActionAllow); err != nil {
				rp.finish()
				return runner.Result{}, nil, vh.Infraf("filter: %v", err)
			}
			p.Seccomp = f
		}
		if r.SyncAfter {
			p.SyncFunc = func(int) error { return nil }
		}
		res, hung, _ := runWithTimeout(func() runner.Result { return env.Execve(context.Background(), p) }, 0)
		if hung {
			rp.pw.Close()
			rp.pr.Close()
			return res, nil, vh.Violf("C13:params-run-hung", "%+v", r)
		}
		return res, rp.finish(), nil
	}
	_, base, err := runOne(c13PRun{ExecFd: true})
	if err != nil || base == nil || len(base.Limits) != 16 {
		t.Fatalf("INFRA: baseline run: %v", err)
	}
	vh.Check(t, rec, func(rt *rapid.T) c13PCase {
		var c c13PCase
		for n := rapid.IntRange(2, 6).Draw(rt, "runs"); n > 0; n-- {
			c.Runs = append(c.Runs, c13PRun{
				NoFile: rapid.SampledFrom([]uint64{0, 0, 64, 1000}).Draw(rt, "nofile"), CPU: rapid.SampledFrom([]uint64{0, 0, 5, 1 << 33}).Draw(rt, "cpu"),
				Core: rapid.Bool().Draw(rt, "core"), ExecFd: rapid.Bool().Draw(rt, "execfd"), NExtra: rapid.IntRange(0, 3).Draw(rt, "extra"),
				NEnv: rapid.IntRange(0, 3).Draw(rt, "env"), SyncAfter: rapid.IntRange(0, 3).Draw(rt, "after") == 0, Filter: rapid.Bool().Draw(rt, "filter")})
		}
		return c
	}, func(c c13PCase) (rerr error) {
		defer func() {
			if v, ok := rerr.(*vh.Violation); ok && id != "C13" {
				v.Key = id + v.Key[3:]
			}
		}()
		nt := false
		type outcome struct {
			res runner.Result
			rep *probe.Report
			err error
		}
		outs := make([]outcome, len(c.Runs))
		if concurrent {
			var wg sync.WaitGroup
			start := make(chan struct{})
			for ri := range c.Runs {
				wg.Add(1)
				go func(ri int) {
					defer wg.Done()
					<-start
					outs[ri].res, outs[ri].rep, outs[ri].err = runOne(c.Runs[ri])
				}(ri)
			}
			close(start)
			wg.Wait()
			nt = true
		}
		for ri, r := range c.Runs {
			if !concurrent {
				outs[ri].res, outs[ri].rep, outs[ri].err = runOne(r)
			}
			res, rep, err := outs[ri].res, outs[ri].rep, outs[ri].err
			if err != nil {
				return err
			}
			desc := fmt.Sprintf("run #%d %+v of %+v: status %v exit %d %q", ri, r, c.Runs, res.Status, res.ExitStatus, res.Error)
			if res.Status != runner.StatusNormal {
				return vh.Violf("C13:params-run-failed", "a launch the kernel accepts did not run to its end; %s", desc)
			}
			want := map[int][2]uint64{}
			if r.NoFile > 0 {
				want[syscall.RLIMIT_NOFILE] = [2]uint64{r.NoFile, r.NoFile}
			}
			if r.CPU > 0 {
				want[syscall.RLIMIT_CPU] = [2]uint64{r.CPU, r.CPU}
			}
			if r.Core {
				want[syscall.RLIMIT_CORE] = [2]uint64{0, 0}
			}
			for k := 0; k < 16; k++ {
				w, conf := want[k]
				if !conf {
					w = base.Limits[k]
				}
				if got := rep.Limits[k]; got != w {
					return vh.Violf("C13:params-linger/rlimit", "resource %d is %v, this run wants %v (configured by this run: %v); %s", k, got, w, conf, desc)
				}
			}
			var fds []int
			for _, f := range rep.FDs {
				fds = append(fds, f.N)
			}
			sort.Ints(fds)
			var wantFds []int
			for k := 0; k < 4+r.NExtra; k++ {
				wantFds = append(wantFds, k)
			}
			if fmt.Sprint(fds) != fmt.Sprint(wantFds) {
				return vh.Violf("C13:params-linger/descriptors", "program sees descriptors %v, this run passes %v; %s", fds, wantFds, desc)
			}
			var wantEnv string
			for k := 0; k < r.NEnv; k++ {
				wantEnv += fmt.Sprintf("E%d=v%d\x00", k, k)
			}
			gotEnv := ""
			for _, v := range rep.Cat {
				gotEnv = v
			}
			if gotEnv != wantEnv {
				return vh.Violf("C13:params-linger/environment", "program's environment is %q, this run passes %q; %s", strings.ReplaceAll(gotEnv, "\x00", "|"), strings.ReplaceAll(wantEnv, "\x00", "|"), desc)
			}
			if ri > 0 {
				p := c.Runs[ri-1]
				if (p.NoFile > 0 && r.NoFile == 0) || (p.CPU > 0 && r.CPU == 0) || (p.Core && !r.Core) || (p.ExecFd && !r.ExecFd) || p.NExtra > r.NExtra || p.NEnv > r.NEnv || (p.Filter && !r.Filter) || (p.SyncAfter && !r.SyncAfter) {
					nt = true
				}
			}
			rec.Evals(16 + len(fds) + 1)
		}
		rec.Case(c, nt, fmt.Sprintf("runs=%d", len(c.Runs)))
		if nt && rec.WantSample() {
			rec.Sample(c)
		}
		return nil
	})
}

//go:build verif

package checks

// C14 — host file operations are index-aligned and safe against planted objects.
// Objects are planted in the container's writable mounts (through /proc/<init>/root, the same objects a sandboxed
// program could leave), then Open / Symlink / Delete batches are issued; every result must belong to its index.

import (
	"fmt"
	"os"
	"path/filepath"
	"strings"
	"syscall"
	"testing"
	"time"

	"github.com/criyle/go-sandbox/container"
	"golang.org/x/sys/unix"
	"pgregory.net/rapid"

	"verif/internal/vh"
)

type c14Item struct {
	Name     string // path is /w/<Name>
	Planted  string // none file file000 link-file link-outside link-dangling link-fifo fifo dir socket
	Acc      string // r w rw
	Creat    bool
	Excl     bool
	Trunc    bool
	Append   bool
	MkdirAll bool
}

type c14Case struct {
	Items []c14Item
}

var c14Planted = []string{"none", "none", "file", "file", "file000", "link-file", "link-outside", "link-dangling", "link-fifo", "fifo", "dir", "socket"}

// paths that cannot even be lstat'ed: below a regular file (ENOTDIR), below a symlink loop (ELOOP), over-long name (ENAMETOOLONG)
var c14Unstatable = []string{"parent-is-file", "parent-loop", "name-too-long"}

// c14Bulk: a large batch on the long-lived environment (100..250 items over distinct names): items that succeed
// (created or existing files), and a generated share of failing ones, optionally with 150..200-character names so
// that the error texts of one reply add up to tens of kilobytes. Request and worst-case reply stay below the 32 KiB frame.
func c14Bulk(rt *rapid.T) c14Case {
	var c c14Case
	n := rapid.IntRange(100, 250).Draw(rt, "bulk-n")
	failShare := rapid.SampledFrom([]int{0, 5, 30, 60, 90}).Draw(rt, "bulk-failshare")
	long := rapid.Bool().Draw(rt, "bulk-longnames")
	budget := 24000
	for i := 0; i < n; i++ {
		fail := rapid.IntRange(0, 99).Draw(rt, "bulk-fail") < failShare
		name := fmt.Sprintf("bulk%03d", i)
		if long && fail {
			name += "-" + strings.Repeat("n", rapid.IntRange(140, 190).Draw(rt, "bulk-pad"))
		}
		budget -= len(name) + 64
		if budget < 0 {
			break
		}
		it := c14Item{Name: name, Acc: rapid.SampledFrom([]string{"r", "w", "rw"}).Draw(rt, "bulk-acc")}
		switch {
		case fail:
			it.Planted = "none" // no CREAT: an error at this index
		case rapid.Bool().Draw(rt, "bulk-existing"):
			it.Planted = "file"
		default:
			it.Planted, it.Creat = "none", true
		}
		c.Items = append(c.Items, it)
	}
	return c
}

func c14GenCase(rt *rapid.T) c14Case {
	if rapid.IntRange(0, 11).Draw(rt, "bulk") == 0 {
		return c14Bulk(rt)
	}
	var c c14Case
	n := rapid.IntRange(0, 12).Draw(rt, "n")
	plantedOf := map[string]string{}
	for i := 0; i < n; i++ {
		name := fmt.Sprintf("p%d", rapid.IntRange(0, 9).Draw(rt, "name"))
		if rapid.IntRange(0, 5).Draw(rt, "sub") == 0 {
			name = "sub/" + name
		}
		pl, seen := plantedOf[name]
		if !seen {
			pl = rapid.SampledFrom(c14Planted).Draw(rt, "planted")
			if rapid.IntRange(0, 7).Draw(rt, "unstatable") == 0 {
				pl = rapid.SampledFrom(c14Unstatable).Draw(rt, "unstatable-kind")
				switch pl {
				case "parent-is-file":
					name = fmt.Sprintf("isfile%d/x", i)
				case "parent-loop":
					name = fmt.Sprintf("loop%d/x", i)
				case "name-too-long":
					name = fmt.Sprintf("long%d-", i) + strings.Repeat("n", 300)
				}
			}
			plantedOf[name] = pl
		}
		c.Items = append(c.Items, c14Item{Name: name, Planted: pl, Acc: rapid.SampledFrom([]string{"r", "w", "rw"}).Draw(rt, "acc"), Creat: rapid.Bool().Draw(rt, "creat"),
			Excl: rapid.IntRange(0, 4).Draw(rt, "excl") == 0, Trunc: rapid.IntRange(0, 3).Draw(rt, "trunc") == 0, Append: rapid.IntRange(0, 4).Draw(rt, "append") == 0,
			MkdirAll: strings.HasPrefix(name, "sub/") && rapid.Bool().Draw(rt, "mkdirall")})
		c.Items[len(c.Items)-1].Planted = pl
	}
	return c
}

func c14Flag(it c14Item) int {
	f := map[string]int{"r": os.O_RDONLY, "w": os.O_WRONLY, "rw": os.O_RDWR}[it.Acc]
	if it.Creat {
		f |= os.O_CREATE
	}
	if it.Excl {
		f |= os.O_EXCL
	}
	if it.Trunc {
		f |= os.O_TRUNC
	}
	if it.Append {
		f |= os.O_APPEND
	}
	return f
}

type c14World struct {
	env       container.Environment
	root      string // host scratch of the container root dir
	hostW     string // /proc/<init>/root/w
	hostTmp   string
	bulkItems int
}

func (w *c14World) close() {
	if w.env != nil {
		w.env.Destroy()
		os.RemoveAll(w.root)
		w.env = nil
	}
}

func (w *c14World) get() error {
	if w.env != nil {
		return nil
	}
	env, root, err := buildContainer(nil)
	if err != nil {
		return vh.Infraf("build: %v", err)
	}
	pid := container.VerifInitPid(env)
	w.env, w.root = env, root
	w.hostW = fmt.Sprintf("/proc/%d/root/w", pid)
	w.hostTmp = fmt.Sprintf("/proc/%d/root/tmp", pid)
	return nil
}

func c14Plant(w *c14World, name, kind string) error {
	p := filepath.Join(w.hostW, name)
	if strings.HasPrefix(name, "sub/") && kind != "none" {
		if err := os.MkdirAll(filepath.Dir(p), 0o755); err != nil {
			return vh.Infraf("plant mkdir: %v", err)
		}
	}
	var err error
	switch kind {
	case "parent-is-file":
		return os.WriteFile(filepath.Join(w.hostW, filepath.Dir(name)), []byte("i am a file"), 0o644)
	case "parent-loop":
		return os.Symlink(filepath.Base(filepath.Dir(name)), filepath.Join(w.hostW, filepath.Dir(name)))
	case "name-too-long":
		return nil
	case "none":
	case "file":
		err = os.WriteFile(p, []byte("planted-content"), 0o644)
	case "file000":
		err = os.WriteFile(p, []byte("planted-content"), 0o000)
		if err == nil {
			err = os.Chmod(p, 0)
		}
	case "link-file":
		os.WriteFile(filepath.Join(w.hostW, "linktarget"), []byte("link-target-content"), 0o644)
		err = os.Symlink("/w/linktarget", p)
	case "link-outside":
		os.WriteFile(filepath.Join(w.hostTmp, "victim"), []byte("victim-content"), 0o644)
		err = os.Symlink("/tmp/victim", p)
	case "link-dangling":
		err = os.Symlink("/tmp/created-through-link", p)
	case "link-fifo":
		unix.Mkfifo(filepath.Join(w.hostW, "thefifo"), 0o666)
		err = os.Symlink("/w/thefifo", p)
	case "fifo":
		err = unix.Mkfifo(p, 0o666)
	case "dir":
		err = os.Mkdir(p, 0o755)
	case "socket":
		err = unix.Mknod(p, unix.S_IFSOCK|0o666, 0)
	}
	if err != nil {
		return vh.Infraf("plant %s as %s: %v", name, kind, err)
	}
	return nil
}

func fdCount() int {
	ents, _ := os.ReadDir("/proc/self/fd")
	return len(ents)
}

func c14Run(c c14Case, w *c14World, rec *vh.Recorder) error {
	if err := w.get(); err != nil {
		return err
	}
	broken := func() { w.close() }
	if err := w.env.Reset(); err != nil {
		broken()
		return vh.Infraf("reset: %v", err)
	}
	planted := map[string]string{}
	for _, it := range c.Items {
		if _, ok := planted[it.Name]; !ok {
			planted[it.Name] = it.Planted
			if err := c14Plant(w, it.Name, it.Planted); err != nil {
				return err
			}
		}
	}
	var cmds []container.OpenCmd
	for _, it := range c.Items {
		cmds = append(cmds, container.OpenCmd{Path: "/w/" + it.Name, Flag: c14Flag(it), Perm: 0o640, MkdirAll: it.MkdirAll})
	}
	baseFds := fdCount()
	type out struct {
		res []container.OpenCmdResult
		err error
	}
	ch := make(chan out, 1)
	start := time.Now()
	go func() {
		r, err := w.env.Open(cmds)
		ch <- out{r, err}
	}()
	var o out
	select {
	case o = <-ch:
	case <-time.After(5 * time.Second):
		// unblock a FIFO open so the goroutine can finish, then give up on this environment
		if f, err := os.OpenFile(filepath.Join(w.hostW, "thefifo"), os.O_WRONLY|syscall.O_NONBLOCK, 0); err == nil {
			f.Close()
		}
		broken()
		return vh.Violf("C14:open-blocks", "Open did not return within 5s (a planted FIFO/socket/device was opened?); batch %+v", c.Items)
	}
	elapsed := time.Since(start)
	desc := fmt.Sprintf("batch %+v", c.Items)
	if len(cmds) == 0 {
		if o.err == nil {
			return vh.Violf("C14:empty-batch", "empty Open batch returned %d results and no error", len(o.res))
		}
		rec.Case(c, false, "empty-batch")
		return c14After(w, baseFds, desc)
	}
	if o.err != nil {
		broken()
		return vh.Violf("C14:batch-failed-as-a-whole", "Open returned (nil, %v): a failing item affected the other items; %s", o.err, desc)
	}
	defer closeAll(o.res)
	if len(o.res) != len(cmds) {
		return vh.Violf("C14:length", "%d results for %d items; %s", len(o.res), len(cmds), desc)
	}
	// sequential model over the lstat state
	state := map[string]string{} // name -> none|file|other
	for n, k := range planted {
		switch k {
		case "none":
			state[n] = "none"
		case "file", "file000":
			state[n] = "file"
		default:
			state[n] = "other" // includes the unstatable paths: an error at that index, nothing else
		}
	}
	dirExists := map[string]bool{}
	for n, k := range planted {
		if strings.Contains(n, "/") && k != "none" {
			dirExists[filepath.Dir(n)] = true
		}
	}
	nOK, nFail, okAfterFail := 0, 0, false
	for i, it := range c.Items {
		r := o.res[i]
		got := r.File != nil && r.Err == nil
		if (r.File != nil) == (r.Err != nil) {
			return vh.Violf("C14:result-shape", "item %d has File=%v Err=%v; %s", i, r.File != nil, r.Err, desc)
		}
		parentOK := !strings.Contains(it.Name, "/") || dirExists[filepath.Dir(it.Name)] || it.MkdirAll
		if it.MkdirAll && strings.Contains(it.Name, "/") {
			dirExists[filepath.Dir(it.Name)] = true
		}
		var mustOK, mustFail bool
		switch state[it.Name] {
		case "none":
			if it.Creat && parentOK {
				mustOK = true
				state[it.Name] = "file"
			} else {
				mustFail = true
			}
		case "file":
			if it.Creat && it.Excl {
				mustFail = true
			} else if planted[it.Name] == "file000" {
				// either outcome is acceptable for an unreadable file; identity is checked below if a descriptor came back
			} else {
				mustOK = true
			}
		case "other":
			mustFail = true
		}
		if mustOK && !got {
			return vh.Violf("C14:misaligned-or-refused", "item %d (%s, planted %s, flag %#x): error %v, expected a descriptor; %s", i, it.Name, planted[it.Name], c14Flag(it), r.Err, desc)
		}
		if mustFail && got {
			key := "C14:planted-object-opened"
			if state[it.Name] != "other" {
				key = "C14:misaligned"
			}
			l, _ := os.Readlink(fmt.Sprintf("/proc/self/fd/%d", r.File.Fd()))
			return vh.Violf(key, "item %d (%s, planted %s, flag %#x) returned a descriptor (%s), expected an error at this index; %s", i, it.Name, planted[it.Name], c14Flag(it), l, desc)
		}
		if got {
			nOK++
			if nFail > 0 {
				okAfterFail = true
			}
			// identity: the descriptor refers to the requested path (same dev/ino as the path now has) and is a regular file
			var fst, pst unix.Stat_t
			if err := unix.Fstat(int(r.File.Fd()), &fst); err != nil {
				return vh.Infraf("fstat: %v", err)
			}
			if err := unix.Lstat(filepath.Join(w.hostW, it.Name), &pst); err != nil {
				return vh.Violf("C14:wrong-file", "item %d (%s): returned descriptor but the path does not exist afterwards: %v; %s", i, it.Name, err, desc)
			}
			if fst.Dev != pst.Dev || fst.Ino != pst.Ino || fst.Mode&unix.S_IFMT != unix.S_IFREG {
				l, _ := os.Readlink(fmt.Sprintf("/proc/self/fd/%d", r.File.Fd()))
				return vh.Violf("C14:wrong-file", "item %d (%s): descriptor is %d:%d mode %o (%s), the path is %d:%d; %s", i, it.Name, fst.Dev, fst.Ino, fst.Mode, l, pst.Dev, pst.Ino, desc)
			}
			fl, _ := unix.FcntlInt(r.File.Fd(), unix.F_GETFL, 0)
			wantAcc := map[string]int{"r": unix.O_RDONLY, "w": unix.O_WRONLY, "rw": unix.O_RDWR}[it.Acc]
			if fl&unix.O_ACCMODE != wantAcc || (it.Append && fl&unix.O_APPEND == 0) {
				return vh.Violf("C14:wrong-mode", "item %d (%s): descriptor flags %#x, requested access %s append=%v; %s", i, it.Name, fl, it.Acc, it.Append, desc)
			}
			fdfl, _ := unix.FcntlInt(r.File.Fd(), unix.F_GETFD, 0)
			if fdfl&unix.FD_CLOEXEC == 0 {
				return vh.Violf("C14:not-cloexec", "item %d (%s): returned descriptor is not close-on-exec; %s", i, it.Name, desc)
			}
		} else {
			nFail++
		}
	}
	// planted objects untouched
	if b, err := os.ReadFile(filepath.Join(w.hostTmp, "victim")); err == nil && string(b) != "victim-content" {
		return vh.Violf("C14:followed-symlink", "the target of a planted symlink outside the mount was modified: %q; %s", b, desc)
	}
	if b, err := os.ReadFile(filepath.Join(w.hostW, "linktarget")); err == nil && string(b) != "link-target-content" {
		return vh.Violf("C14:followed-symlink", "the target of a planted symlink was modified: %q; %s", b, desc)
	}
	if _, err := os.Lstat(filepath.Join(w.hostTmp, "created-through-link")); err == nil {
		return vh.Violf("C14:followed-symlink", "a file was created through a planted dangling symlink; %s", desc)
	}
	for n, k := range planted {
		if strings.HasPrefix(k, "link-") {
			if fi, err := os.Lstat(filepath.Join(w.hostW, n)); err != nil || fi.Mode()&os.ModeSymlink == 0 {
				return vh.Violf("C14:planted-object-changed", "planted symlink %s is gone or replaced; %s", n, desc)
			}
		}
	}
	if elapsed > 5*time.Second {
		return vh.Violf("C14:open-blocks", "Open took %v; %s", elapsed, desc)
	}
	closeAll(o.res)
	if err := c14After(w, baseFds, desc); err != nil {
		return err
	}
	nt := nOK > 0 && nFail > 0 && okAfterFail
	var classes []string
	for _, it := range c.Items {
		classes = append(classes, "planted="+it.Planted)
	}
	if len(c.Items) >= 50 {
		errBytes := 0
		for _, r := range o.res {
			if r.Err != nil {
				errBytes += len(r.Err.Error())
			}
		}
		classes = append(classes, "bulk-batch(>=50 items)", fmt.Sprintf("bulk-error-text-KiB=%d", errBytes/4096*4))
		w.bulkItems += len(c.Items)
		rec.Extra("items_opened_in_bulk_batches_on_one_environment", w.bulkItems)
	}
	rec.Case(c, nt, dedup(classes)...)
	rec.Evals(len(c.Items))
	if nt && rec.WantSample() {
		rec.Sample(c)
	}
	return nil
}

func c14After(w *c14World, baseFds int, desc string) error {
	ch := make(chan error, 1)
	go func() { ch <- w.env.Ping() }()
	select {
	case err := <-ch:
		if err != nil {
			w.close()
			return vh.Violf("C14:protocol-broken", "Ping after the batch failed: %v; %s", err, desc)
		}
	case <-time.After(5 * time.Second):
		w.close()
		return vh.Violf("C14:protocol-broken", "Ping after the batch hangs; %s", desc)
	}
	for i := 0; i < 50 && fdCount() != baseFds; i++ {
		time.Sleep(2 * time.Millisecond)
	}
	if n := fdCount(); n != baseFds {
		return vh.Violf("C14:descriptor-leak", "host has %d descriptors after closing the results, %d before the call; %s", n, baseFds, desc)
	}
	return nil
}

func TestC14Open(t *testing.T) {
	rec := vh.NewRecorder(t, "C14", "exploration",
		"open part: one case in twelve is a bulk batch of 100..250 items over distinct names (0..90% failing, optionally 150..200-character names so that the error texts of one reply reach tens of KiB; the environment lives through all cases, so its init goes through garbage-collection cycles while batches are in progress); otherwise batch of 0..12 Open items over a 10-name pool (duplicates inside a batch, sub-directory paths with/without MkdirAll) x access mode x CREAT/EXCL/TRUNC/APPEND, with one of {nothing, regular file, mode-000 file, symlink to a file / to a file in another mount / dangling / to a FIFO, FIFO, directory, socket} planted at each path; oracle: sequential per-item expectation from the lstat state (descriptor with the path's dev/ino, regular, requested access mode, close-on-exec - or an error at exactly that index), planted objects and symlink targets untouched, returns within 5 s, Ping works afterwards, host descriptor count back to baseline; non-trivial = a success after a failure inside one batch")
	w := &c14World{}
	defer w.close()
	vh.Check(t, rec, c14GenCase, func(c c14Case) error { return c14Run(c, w, rec) })
}

// ---- Symlink and Delete --------------------------------------------------------------------------------------

type c14SCase struct {
	Links   []c14Item // Name = link path, Planted = what is there already
	Deletes []c14Item
}

func TestC14Symlink(t *testing.T) {
	rec := vh.NewRecorder(t, "C14", "exploration", "symlink/delete part: one case in twelve is a bulk batch of 60..110 links, 10..90% of them failing with long names; otherwise Symlink batches of 0..8 links (link path free / occupied by any planted kind / in a missing directory / duplicated inside the batch) and Delete of each planted kind; results index-aligned, occupied paths keep their object, Delete removes the link not its target")
	w := &c14World{}
	defer w.close()
	vh.Check(t, rec, func(rt *rapid.T) c14SCase {
		var c c14SCase
		if rapid.IntRange(0, 11).Draw(rt, "bulk") == 0 {
			// many links in one batch, a generated share of them failing (missing directory) with long names
			n := rapid.IntRange(60, 110).Draw(rt, "bulk-n")
			share := rapid.SampledFrom([]int{10, 50, 90}).Draw(rt, "bulk-failshare")
			budget := 24000
			for i := 0; i < n; i++ {
				name := fmt.Sprintf("bulk%03d", i)
				if rapid.IntRange(0, 99).Draw(rt, "bulk-fail") < share {
					name = "nodir/" + name + "-" + strings.Repeat("n", rapid.IntRange(120, 170).Draw(rt, "bulk-pad"))
				}
				if budget -= len(name) + 80; budget < 0 {
					break
				}
				c.Links = append(c.Links, c14Item{Name: name, Planted: "none"})
			}
			return c
		}
		n := rapid.IntRange(0, 8).Draw(rt, "n")
		seen := map[string]string{}
		for i := 0; i < n; i++ {
			name := fmt.Sprintf("p%d", rapid.IntRange(0, 7).Draw(rt, "name"))
			if rapid.IntRange(0, 5).Draw(rt, "missingdir") == 0 {
				name = "nodir/" + name
			}
			pl, ok := seen[name]
			if !ok {
				pl = rapid.SampledFrom(c14Planted).Draw(rt, "planted")
				if strings.HasPrefix(name, "nodir/") {
					pl = "none"
				}
				seen[name] = pl
			}
			c.Links = append(c.Links, c14Item{Name: name, Planted: pl})
		}
		m := rapid.IntRange(0, 4).Draw(rt, "m")
		for i := 0; i < m; i++ {
			c.Deletes = append(c.Deletes, c14Item{Name: fmt.Sprintf("d%d", i), Planted: rapid.SampledFrom(c14Planted).Draw(rt, "dplanted")})
		}
		return c
	}, func(c c14SCase) error {
		if err := w.get(); err != nil {
			return err
		}
		if err := w.env.Reset(); err != nil {
			w.close()
			return vh.Infraf("reset: %v", err)
		}
		planted := map[string]string{}
		for _, it := range append(append([]c14Item{}, c.Links...), c.Deletes...) {
			if _, ok := planted[it.Name]; !ok {
				planted[it.Name] = it.Planted
				if err := c14Plant(w, it.Name, it.Planted); err != nil {
					return err
				}
			}
		}
		desc := fmt.Sprintf("%+v", c)
		var links []container.SymbolicLink
		for i, it := range c.Links {
			links = append(links, container.SymbolicLink{LinkPath: "/w/" + it.Name, Target: fmt.Sprintf("target-%d", i)})
		}
		res, err := w.env.Symlink(links)
		if len(links) == 0 {
			if err == nil {
				return vh.Violf("C14:empty-batch", "empty Symlink batch succeeded")
			}
		} else {
			if err != nil {
				w.close()
				return vh.Violf("C14:batch-failed-as-a-whole", "Symlink returned %v; %s", err, desc)
			}
			if len(res) != len(links) {
				return vh.Violf("C14:length", "%d results for %d links; %s", len(res), len(links), desc)
			}
			occupied := map[string]bool{}
			for n, k := range planted {
				occupied[n] = k != "none"
			}
			for i, it := range c.Links {
				want := !occupied[it.Name] && !strings.HasPrefix(it.Name, "nodir/")
				if (res[i] == nil) != want {
					return vh.Violf("C14:misaligned", "link %d (%s, planted %s): err=%v, expected ok=%v; %s", i, it.Name, it.Planted, res[i], want, desc)
				}
				if want {
					occupied[it.Name] = true
					l, err := os.Readlink(filepath.Join(w.hostW, it.Name))
					if err != nil || l != fmt.Sprintf("target-%d", i) {
						return vh.Violf("C14:misaligned", "link %d (%s) points to %q (%v), this item's target is target-%d; %s", i, it.Name, l, err, i, desc)
					}
				}
			}
		}
		for _, it := range c.Deletes {
			err := w.env.Delete("/w/" + it.Name)
			_, lerr := os.Lstat(filepath.Join(w.hostW, it.Name))
			switch it.Planted {
			case "none":
				if err == nil {
					return vh.Violf("C14:delete", "Delete of a missing path succeeded; %s", desc)
				}
			default:
				if err != nil || lerr == nil {
					return vh.Violf("C14:delete", "Delete(%s planted %s) = %v, still there=%v; %s", it.Name, it.Planted, err, lerr == nil, desc)
				}
			}
		}
		if b, err := os.ReadFile(filepath.Join(w.hostTmp, "victim")); err == nil && string(b) != "victim-content" {
			return vh.Violf("C14:followed-symlink", "Delete/Symlink touched a symlink's target; %s", desc)
		}
		if _, err := os.Lstat(filepath.Join(w.hostW, "linktarget")); err != nil && planted != nil {
			for _, k := range planted {
				if k == "link-file" {
					return vh.Violf("C14:followed-symlink", "Delete removed a symlink's target; %s", desc)
				}
			}
		}
		if err := w.env.Ping(); err != nil {
			w.close()
			return vh.Violf("C14:protocol-broken", "Ping: %v; %s", err, desc)
		}
		nt := false
		okSeen, failSeen := false, false
		for _, it := range c.Links {
			if planted[it.Name] == "none" && !strings.HasPrefix(it.Name, "nodir/") {
				okSeen = true
			} else {
				failSeen = true
			}
		}
		nt = okSeen && failSeen
		sclasses := []string{"symlink-delete"}
		if len(c.Links) >= 50 {
			sclasses = append(sclasses, "bulk-symlink-batch(>=50 links)")
		}
		rec.Case(c, nt, sclasses...)
		if nt && rec.WantSample() {
			rec.Sample(c)
		}
		return nil
	})
}

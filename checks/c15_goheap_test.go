package checks

// C15, pointer-value part: "whatever ... pointers ... a traced program uses". The pathname pointers of a traced Go program
// are addresses of its own heap, 0xc000000000 and up - numerically the same range the *tracer's* Go heap occupies. The
// tracer process must treat a tracee address as a number; if it ever stores one where its garbage collector looks for
// pointers, a collection that runs at that moment finds a "pointer" into a free span of its own heap and the runtime
// aborts the whole process (fatal error, not recoverable) - every sandbox in the process dies with it.
//
// The runs happen in a helper process (role c15gc), so that the death of the tracer *process* is an observation of the
// parent and not the end of the check. The helper keeps its collector busy and its heap full of recently freed spans
// (what a judge server's heap looks like), and traces programs that issue path syscalls with strings placed at generated
// addresses inside that range.

import (
	"bytes"
	"context"
	"encoding/json"
	"fmt"
	"os"
	"os/exec"
	"runtime"
	"strings"
	"sync/atomic"
	"testing"
	"time"

	"github.com/criyle/go-sandbox/pkg/seccomp/libseccomp"
	"github.com/criyle/go-sandbox/runner"
	"pgregory.net/rapid"

	"verif/internal/probe"
	"verif/internal/vh"
)

type c15GCase struct {
	Offsets []uint64 // string addresses = 0xc000000000 + offset
	Calls   int      // traced calls per address and run
	Runs    int
	Churn   int // MiB of short-lived allocations kept turning over in the tracer process
}

type c15GResult struct {
	Infra    string
	Runs     int
	Traps    int
	GCs      uint32
	Statuses map[string]int
	Errors   []string
}

func init() { roles["c15gc"] = c15GCHelper }

func c15GCHelper() {
	var c c15GCase
	res := c15GResult{Statuses: map[string]int{}}
	out := func() {
		b, _ := json.Marshal(res)
		os.Stdout.Write(b)
	}
	if err := json.NewDecoder(os.Stdin).Decode(&c); err != nil {
		res.Infra = "decode: " + err.Error()
		out()
		return
	}
	root, err := vh.ScratchDir("c15gc")
	if err != nil {
		res.Infra = err.Error()
		out()
		return
	}
	defer os.RemoveAll(root)
	existing := root + "/file"
	os.WriteFile(existing, []byte("x"), 0o644)
	// collector pressure: a goroutine that collects continuously, and one that keeps allocating and dropping blocks of
	// many sizes so that the low part of the heap always contains freshly freed spans
	var stop atomic.Bool
	go func() {
		for !stop.Load() {
			runtime.GC()
		}
	}()
	go func() {
		var keep [][]byte
		sizes := []int{8 << 10, 16 << 10, 64 << 10, 256 << 10, 1 << 20}
		for i := 0; !stop.Load(); i++ {
			keep = append(keep, make([]byte, sizes[i%len(sizes)]))
			tot := 0
			for _, k := range keep {
				tot += len(k)
			}
			if tot > c.Churn<<20 {
				keep = keep[len(keep)/2:]
			}
			if i%64 == 0 {
				time.Sleep(50 * time.Microsecond)
			}
		}
	}()
	allow := append([]string{"execve", "execveat"}, probeBaseAllow...)
	filter, err := buildFilter(allow, []string{"stat", "lstat", "access"}, libseccomp.ActionKill)
	if err != nil {
		res.Infra = "filter: " + err.Error()
		out()
		return
	}
	var ms runtime.MemStats
	runtime.ReadMemStats(&ms)
	gc0 := ms.NumGC
	for r := 0; r < c.Runs; r++ {
		var s probe.Script
		for k := 0; k < c.Calls; k++ {
			for _, off := range c.Offsets {
				s.Sys(sysNr[[]string{"stat", "lstat", "access"}[k%3]], fmt.Sprintf("!at=0x%x,%d", 0xc000000000+off, s.StrIdx(existing)), "!buf")
			}
		}
		s.Add("exit:0")
		h := &recHandler{}
		tr, err := runTraced(tracedOpts{Script: &s, Filter: filter, Handler: h, WorkDir: root, Timeout: 20 * time.Second})
		if err != nil {
			res.Infra = err.Error()
			break
		}
		if tr.Hung {
			killTagged(tr.Tag)
			res.Errors = append(res.Errors, "hung")
			break
		}
		res.Runs++
		res.Traps += len(h.Records)
		res.Statuses[tr.Result.Status.String()]++
		if tr.Result.Status != runner.StatusNormal {
			res.Errors = append(res.Errors, fmt.Sprintf("%v %q", tr.Result.Status, tr.Result.Error))
		}
	}
	stop.Store(true)
	runtime.ReadMemStats(&ms)
	res.GCs = ms.NumGC - gc0
	out()
}

func c15GoHeapRun(c c15GCase, rec *vh.Recorder) error {
	in, _ := json.Marshal(c)
	self, err := os.Executable()
	if err != nil {
		return vh.Infraf("executable: %v", err)
	}
	ctx, cancel := context.WithTimeout(context.Background(), 120*time.Second)
	defer cancel()
	cmd := exec.CommandContext(ctx, self)
	cmd.Env = append(os.Environ(), "VERIF_ROLE=c15gc")
	cmd.Stdin = bytes.NewReader(in)
	var out, errb bytes.Buffer
	cmd.Stdout, cmd.Stderr = &out, &errb
	runErr := cmd.Run()
	stderr := errb.String()
	if strings.Contains(stderr, "out of memory") || strings.Contains(stderr, "cannot allocate memory") {
		return vh.Infraf("helper ran out of memory: %q", strTail(stderr, 300))
	}
	if strings.Contains(stderr, "fatal error:") || strings.Contains(stderr, "runtime: pointer") || strings.Contains(stderr, "found bad pointer") {
		first := stderr
		if i := strings.Index(first, "fatal error:"); i >= 0 {
			first = first[i:]
		}
		if len(first) > 400 {
			first = first[:400]
		}
		return vh.Violf("C15:tracer-process-crash/tracee-address-seen-by-gc", "the process hosting the tracer was aborted by its own runtime while tracing a program whose pathname strings live at 0xc000000000+%v (the address range of a Go program's heap): %q", c.Offsets, first)
	}
	if ctx.Err() != nil {
		return vh.Violf("C15:no-progress", "helper tracing %d runs did not finish in 120 s; stderr %q", c.Runs, strTail(stderr, 300))
	}
	var res c15GResult
	if jerr := json.Unmarshal(out.Bytes(), &res); jerr != nil {
		if runErr != nil {
			return vh.Violf("C15:tracer-process-crash", "the process hosting the tracer died (%v) while tracing; stderr %q", runErr, strTail(stderr, 400))
		}
		return vh.Infraf("helper output %q stderr %q", out.String(), strTail(stderr, 300))
	}
	if res.Infra != "" {
		return vh.Infraf("helper: %s", res.Infra)
	}
	if len(res.Errors) > 0 {
		return vh.Violf("C15:verdict", "programs that only stat an existing file through pointers in the Go-heap address range and exit 0 ended as %v", res.Errors)
	}
	rec.Case(c, res.GCs > 10 && res.Traps > 100, fmt.Sprintf("addresses=%d", len(c.Offsets)))
	rec.Evals(res.Traps)
	rec.AddExtra("traced_calls_with_go_heap_range_pointers", res.Traps)
	rec.AddExtra("tracer_gc_cycles_meanwhile", int(res.GCs))
	if rec.WantSample() {
		rec.Sample(map[string]any{"case": c, "traps": res.Traps, "gc_cycles": res.GCs})
	}
	return nil
}

func strTail(s string, n int) string {
	if len(s) > n {
		return s[len(s)-n:]
	}
	return s
}

func TestC15GoHeap(t *testing.T) {
	rec := vh.NewRecorder(t, "C15", "exploration",
		"pointer-value part: programs issuing 50..400 traced stat/lstat/access calls per run with the pathname placed (MAP_FIXED) at 1..8 generated addresses in 0xc000000000 + [0, 96 MiB) - the range a Go program's heap strings have and the tracer's own Go heap occupies - traced by a helper process whose collector runs continuously over a heap of 8..64 MiB of churning allocations; oracle: the tracer process survives (no runtime fatal error), every run ends Normal; non-trivial = > 100 traced calls and > 10 collections of the tracer's heap during the case")
	rec.Assume("whether a collection of the tracer's heap coincides with a tracee address being held where the collector looks is sampled (continuous collections x thousands of calls), not enumerated")
	vh.Check(t, rec, func(rt *rapid.T) c15GCase {
		c := c15GCase{Calls: rapid.IntRange(50, 400).Draw(rt, "calls"), Runs: rapid.IntRange(2, 6).Draw(rt, "runs"), Churn: rapid.SampledFrom([]int{8, 24, 64}).Draw(rt, "churn")}
		n := rapid.IntRange(1, 8).Draw(rt, "naddr")
		for i := 0; i < n; i++ {
			// spread over the first arenas, at odd offsets inside 8 KiB units like real string addresses
			off := rapid.Uint64Range(0, 96<<20).Draw(rt, "off")
			c.Offsets = append(c.Offsets, off&^7|uint64(i&1)<<2)
		}
		return c
	}, func(c c15GCase) error { return c15GoHeapRun(c, rec) })
}

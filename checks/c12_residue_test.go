//go:build verif

package checks

// C12 — no residue: no processes, zombies, descriptors or goroutines left behind.

import (
	"context"
	"fmt"
	"os"
	"path/filepath"
	"runtime"
	"sort"
	"strconv"
	"strings"
	"syscall"
	"testing"
	"time"

	"github.com/criyle/go-sandbox/container"
	"github.com/criyle/go-sandbox/pkg/forkexec"
	"github.com/criyle/go-sandbox/pkg/mount"
	"github.com/criyle/go-sandbox/pkg/seccomp/libseccomp"
	"github.com/criyle/go-sandbox/runner"
	"pgregory.net/rapid"

	"verif/internal/probe"
	"verif/internal/vh"
)

// ---- process trees ---------------------------------------------------------------------------------------------

type c12Node struct {
	Kind     string // fork daemon thread
	SigIgn   bool
	Setsid   bool // only in pid-namespace based runners
	Setpgid  bool
	Behave   string // sleep-forever | exit-now (zombie for its parent) | spin
	Children []c12Node
}

type c12TreeCase struct {
	Runner string // ptrace unshare container
	Tree   []c12Node
	Ending string // exit crash cancel waits-then-exit
	Delay  int
}

func c12GenNode(rt *rapid.T, depth int, pidns bool, label string) c12Node {
	n := c12Node{Kind: rapid.SampledFrom([]string{"fork", "fork", "fork", "daemon", "thread"}).Draw(rt, label+"kind"),
		SigIgn: rapid.Bool().Draw(rt, label+"sigign"), Behave: rapid.SampledFrom([]string{"sleep-forever", "sleep-forever", "exit-now", "spin"}).Draw(rt, label+"behave")}
	if !pidns && n.Kind == "daemon" {
		n.Kind = "fork" // the ptrace policy refuses setsid
	}
	if pidns {
		n.Setsid = rapid.IntRange(0, 3).Draw(rt, label+"setsid") == 0
		n.Setpgid = rapid.IntRange(0, 3).Draw(rt, label+"setpgid") == 0
	}
	if n.Kind != "thread" && depth < 3 {
		k := rapid.IntRange(0, 3-depth).Draw(rt, label+"nkids")
		for i := 0; i < k; i++ {
			n.Children = append(n.Children, c12GenNode(rt, depth+1, pidns, label+"c"))
		}
	}
	return n
}

func c12Emit(s *probe.Script, n c12Node) {
	s.Add(n.Kind + "{")
	if n.SigIgn {
		s.Add("sigign")
	}
	if n.Setsid && n.Kind != "thread" {
		s.Sys(sysNr["setsid"])
	}
	if n.Setpgid && n.Kind != "thread" {
		s.Sys(sysNr["setpgid"], 0, 0)
	}
	for _, c := range n.Children {
		c12Emit(s, c)
	}
	switch n.Behave {
	case "sleep-forever":
		s.Add("sleep:600000")
	case "spin":
		s.Add("spin:600000")
	case "exit-now":
		if n.Kind == "thread" {
			s.Add("texit:0")
		}
	}
	s.Add("}")
}

func c12CountNodes(ns []c12Node) (n int, special bool) {
	for _, x := range ns {
		n++
		if x.Kind == "daemon" || x.SigIgn || x.Setsid {
			special = true
		}
		cn, cs := c12CountNodes(x.Children)
		n += cn
		special = special || cs
	}
	return
}

type procInfo struct {
	Pid    int
	PPid   int
	State  string
	Tracer int // TracerPid: a dead tracee that its tracer never collected stays attached to it
}

func taggedInfo(tag string) []procInfo {
	var out []procInfo
	for pid, st := range taggedPids(tag) {
		pi := procInfo{Pid: pid, State: st}
		if b, err := os.ReadFile(fmt.Sprintf("/proc/%d/stat", pid)); err == nil {
			if i := strings.LastIndex(string(b), ") "); i >= 0 {
				f := strings.Fields(string(b)[i+2:])
				if len(f) > 1 {
					pi.PPid, _ = strconv.Atoi(f[1])
				}
			}
		}
		if b, err := os.ReadFile(fmt.Sprintf("/proc/%d/status", pid)); err == nil {
			for _, ln := range strings.Split(string(b), "\n") {
				if strings.HasPrefix(ln, "TracerPid:") {
					pi.Tracer, _ = strconv.Atoi(strings.TrimSpace(ln[10:]))
				}
			}
		}
		out = append(out, pi)
	}
	sort.Slice(out, func(i, j int) bool { return out[i].Pid < out[j].Pid })
	return out
}

// c12NoTagged waits up to 2 s for the tagged processes to vanish. Returns a violation for live survivors and for
// zombies whose parent is this process or one of the given container inits.
func c12NoTagged(tag string, inits map[int]bool, what string) error {
	deadline := time.Now().Add(2 * time.Second)
	for {
		infos := taggedInfo(tag)
		var live, zomb []procInfo
		for _, p := range infos {
			if p.State == "Z" || p.State == "X" {
				if p.PPid == os.Getpid() || inits[p.PPid] || (p.Tracer != 0 && ownTask(p.Tracer)) {
					zomb = append(zomb, p)
				}
				continue
			}
			live = append(live, p)
		}
		if len(live) == 0 && len(zomb) == 0 {
			zomb = leftoverTracees(inits)
		}
		if len(live) == 0 && len(zomb) == 0 {
			return nil
		}
		if time.Now().After(deadline) {
			killTagged(tag)
			if len(live) > 0 {
				return vh.Violf("C12:survivor", "%s: processes of the program are still alive 2 s after the run returned: %+v", what, live)
			}
			return vh.Violf("C12:zombie", "%s: un-reaped zombies whose parent is the host process or a container init, or dead tracees the host's tracer never collected: %+v", what, zomb)
		}
		time.Sleep(5 * time.Millisecond)
	}
}

// leftoverTracees scans the process table for processes (zombies have no cmdline, so the tag scan cannot see them)
// that are still attached to one of this process's threads as tracer, or are zombie children of this process.
func leftoverTracees(allowChildren map[int]bool) []procInfo {
	var out []procInfo
	ents, _ := os.ReadDir("/proc")
	for _, e := range ents {
		pid, err := strconv.Atoi(e.Name())
		if err != nil || pid == os.Getpid() {
			continue
		}
		b, err := os.ReadFile("/proc/" + e.Name() + "/status")
		if err != nil {
			continue
		}
		pi := procInfo{Pid: pid}
		for _, ln := range strings.Split(string(b), "\n") {
			switch {
			case strings.HasPrefix(ln, "State:"):
				f := strings.Fields(ln)
				if len(f) > 1 {
					pi.State = f[1]
				}
			case strings.HasPrefix(ln, "PPid:"):
				pi.PPid, _ = strconv.Atoi(strings.TrimSpace(ln[5:]))
			case strings.HasPrefix(ln, "TracerPid:"):
				pi.Tracer, _ = strconv.Atoi(strings.TrimSpace(ln[10:]))
			}
		}
		if pi.Tracer != 0 && ownTask(pi.Tracer) {
			out = append(out, pi)
		} else if pi.PPid == os.Getpid() && pi.State == "Z" && !allowChildren[pid] {
			out = append(out, pi)
		}
	}
	return out
}

// ownTask says whether tid is a thread of this process (a tracer thread of the host).
func ownTask(tid int) bool {
	_, err := os.Stat(fmt.Sprintf("/proc/self/task/%d", tid))
	return err == nil
}

func c12Filter() ([]string, []string) {
	allow := append([]string{"fork", "vfork", "clone", "kill", "rt_sigprocmask", "execve", "execveat"}, probeBaseAllow...)
	return allow, nil
}

func c12RunTree(c c12TreeCase, ce *c09Env, rec *vh.Recorder) error {
	var s probe.Script
	for _, n := range c.Tree {
		c12Emit(&s, n)
	}
	switch c.Ending {
	case "exit":
		s.Add("sleep:3")
		s.Add("exit:0")
	case "crash":
		s.Add("sleep:2")
		s.Add("fault:segv")
	case "cancel":
		s.Add("sleep:600000")
	case "waits-then-exit":
		s.Add("sleep:10")
		s.Add("exit:3")
	}
	allow, _ := c12Filter()
	if c.Runner != "ptrace" {
		allow = append(allow, "setsid", "setpgid")
	}
	filter, err := buildFilter(allow, nil, libseccomp.ActionKill)
	if err != nil {
		return vh.Infraf("filter: %v", err)
	}
	ctx := context.Background()
	var cancel context.CancelFunc
	if c.Ending == "cancel" {
		ctx, cancel = context.WithTimeout(ctx, time.Duration(5+c.Delay)*time.Millisecond)
		defer cancel()
	}
	tag := newTag()
	inits := map[int]bool{}
	var tr *tracedResult
	switch c.Runner {
	case "ptrace":
		tr, err = runTraced(tracedOpts{Script: &s, Filter: filter, Handler: &recHandler{}, Ctx: ctx, Tag: tag})
	case "unshare":
		tr, err = runUnshare(sandboxOpts{Script: &s, Filter: filter, Ctx: ctx, Tag: tag})
	default:
		var env container.Environment
		env, err = ce.get()
		if err != nil {
			return err
		}
		inits[container.VerifInitPid(env)] = true
		tr, err = runContainer(sandboxOpts{Script: &s, Filter: filter, Ctx: ctx, Tag: tag, Env: env})
	}
	if err != nil {
		return err
	}
	desc := fmt.Sprintf("%+v", c)
	if tr.Hung {
		infos := taggedInfo(tag)
		killTagged(tag)
		ce.close()
		return vh.Violf("C12:run-never-returns", "the run did not return within 20 s; tagged processes %+v; %s", infos, desc)
	}
	if tr.Result.Status == runner.StatusRunnerError {
		ce.close()
		return vh.Violf("C12:runner-error", "%q; %s", tr.Result.Error, desc)
	}
	if err := c12NoTagged(tag, inits, desc); err != nil {
		ce.close()
		return err
	}
	if c.Runner == "container" {
		// the environment must be reusable and its init must have no children left
		env, _ := ce.get()
		init := container.VerifInitPid(env)
		kids := childrenOf(init)
		if len(kids) > 0 {
			ce.close()
			return vh.Violf("C12:init-children", "container init %d still has children %v after Execve returned; %s", init, kids, desc)
		}
		var s2 probe.Script
		s2.Add("exit:9")
		tr2, err := runContainer(sandboxOpts{Script: &s2, Env: env, Timeout: 10 * time.Second})
		if err != nil {
			return err
		}
		if tr2.Hung || tr2.Result.Status != runner.StatusNonzeroExitStatus || tr2.Result.ExitStatus != 9 {
			ce.close()
			return vh.Violf("C12:env-stuck", "the next Execve on the environment: hung=%v %v exit %d %q; %s", tr2.Hung, tr2.Result.Status, tr2.Result.ExitStatus, tr2.Result.Error, desc)
		}
	}
	n, special := c12CountNodes(c.Tree)
	rec.Case(c, special && c.Ending != "cancel" || n >= 3, "runner="+c.Runner, "ending="+c.Ending, fmt.Sprintf("nodes=%d", min(n, 8)))
	if special && rec.WantSample() && n <= 6 {
		rec.Sample(c)
	}
	return nil
}

func childrenOf(pid int) []int {
	var out []int
	tasks, _ := os.ReadDir(fmt.Sprintf("/proc/%d/task", pid))
	for _, t := range tasks {
		b, _ := os.ReadFile(fmt.Sprintf("/proc/%d/task/%s/children", pid, t.Name()))
		for _, f := range strings.Fields(string(b)) {
			p, _ := strconv.Atoi(f)
			out = append(out, p)
		}
	}
	sort.Ints(out)
	return out
}

func TestC12Trees(t *testing.T) {
	rec := vh.NewRecorder(t, "C12", "exploration",
		"tree part: runner in {ptrace, unshare, container} x process tree (depth <= 4, fan-out <= 3: forks, double-forked daemons with setsid, threads; signals ignored; setsid/setpgid in the pid-namespace based runners; descendants sleeping, spinning or exiting un-waited) x ending of the main process (exit, crash, cancelled context, exit after a while); oracle: within 2 s of the run returning no process carrying the run's tag is alive anywhere on the host and no tagged zombie has the host process or the container init as parent; the container init has no children and runs the next program; non-trivial = a daemonised / signal-ignoring / new-session descendant or >= 3 nodes")
	ce := &c09Env{}
	defer ce.close()
	vh.Check(t, rec, func(rt *rapid.T) c12TreeCase {
		c := c12TreeCase{Runner: rapid.SampledFrom([]string{"ptrace", "unshare", "container", "container"}).Draw(rt, "runner"),
			Ending: rapid.SampledFrom([]string{"exit", "exit", "crash", "cancel", "waits-then-exit"}).Draw(rt, "ending"), Delay: rapid.IntRange(0, 20).Draw(rt, "delay")}
		n := rapid.IntRange(1, 3).Draw(rt, "n")
		for i := 0; i < n; i++ {
			c.Tree = append(c.Tree, c12GenNode(rt, 1, c.Runner != "ptrace", fmt.Sprintf("t%d", i)))
		}
		return c
	}, func(c c12TreeCase) error { return c12RunTree(c, ce, rec) })
}

// ---- histories -------------------------------------------------------------------------------------------------------

type c12Action struct {
	Kind   string // broken-destroy (transport failure, then Destroy) ptrace unshare build destroy execve open symlink delete reset failing-build ping userns-fail (a user-namespace launch whose id map the kernel rejects)
	Env    int
	Target string // execve: ok fail-before fail-after-sync cancel sync-fail
	Keep   bool   // open: keep the returned files for a while
	Tree   bool   // run a small process tree instead of a trivial program
}

type c12HCase struct{ Actions []c12Action }

type c12Counters struct {
	fds, goroutines int
	children        []int
}

func c12Measure() c12Counters {
	return c12Counters{fds: fdCount(), goroutines: runtime.NumGoroutine(), children: c07Children()}
}

func TestC12History(t *testing.T) {
	rec := vh.NewRecorder(t, "C12", "exploration",
		"history part: 5..30 actions over up to 3 environments in one host process: ptrace run, namespace run, Build, failing Build (bad mount), Destroy, Execve (ok / failing before fork / failing after the sync / cancelled / failing callback; trivial program or a process tree), Open (files, missing paths, directories and a planted FIFO; results closed or kept for a while), a user-namespace launch whose uid/gid map the kernel rejects, Symlink, Delete, Reset, Ping; after every action (settle loop <= 2 s with two forced GCs): open descriptors, goroutines and child processes of the host process equal the baseline plus a per-live-environment constant measured at the first Build plus the files the test still holds; descriptors and children of every live container init equal their post-Build baseline; nothing tagged survives; non-trivial = >= 1 failing or cancelled action and >= 1 environment destroyed")
	dir, err := vh.ScratchDir("c12")
	if err != nil {
		t.Fatalf("INFRA: %v", err)
	}
	defer os.RemoveAll(dir)
	// warm-up: everything that is created lazily and kept on purpose
	{
		var s probe.Script
		s.Add("exit:0")
		allow, _ := c12Filter()
		f, _ := buildFilter(allow, nil, libseccomp.ActionKill)
		runTraced(tracedOpts{Script: &s, Filter: f, Handler: &recHandler{}})
		runUnshare(sandboxOpts{Script: &s})
		env, root, err := buildContainer(nil)
		if err != nil {
			t.Fatalf("INFRA: %v", err)
		}
		runContainer(sandboxOpts{Script: &s, Env: env})
		env.Destroy()
		os.RemoveAll(root)
	}
	settle := func(want func(c12Counters) (bool, string)) (c12Counters, string) {
		var m c12Counters
		var why string
		for i := 0; i < 200; i++ {
			if i%20 == 0 {
				runtime.GC()
				runtime.GC()
			}
			m = c12Measure()
			ok, w := want(m)
			if ok {
				return m, ""
			}
			why = w
			time.Sleep(10 * time.Millisecond)
		}
		return m, why
	}
	vh.Check(t, rec, func(rt *rapid.T) c12HCase {
		var c c12HCase
		n := rapid.IntRange(5, 30).Draw(rt, "n")
		for i := 0; i < n; i++ {
			a := c12Action{Kind: rapid.SampledFrom([]string{"ptrace", "unshare", "build", "build", "destroy", "execve", "execve", "execve", "open", "open", "symlink", "delete", "reset", "failing-build", "ping", "userns-fail", "broken-destroy"}).Draw(rt, "kind"),
				Env: rapid.IntRange(0, 2).Draw(rt, "env"), Target: rapid.SampledFrom([]string{"ok", "ok", "fail-before", "fail-after-sync", "cancel", "sync-fail", "sync-fail-after-exec"}).Draw(rt, "target"),
				Keep: rapid.Bool().Draw(rt, "keep"), Tree: rapid.IntRange(0, 2).Draw(rt, "tree") == 0}
			c.Actions = append(c.Actions, a)
		}
		return c
	}, func(c c12HCase) error {
		runtime.GC()
		base, _ := settle(func(c12Counters) (bool, string) { return true, "" })
		base = c12Measure()
		type live struct {
			env      container.Environment
			root     string
			init     int
			initFds  int
			initKids []int
		}
		envs := map[int]*live{}
		var kept []*os.File
		perEnvFds, perEnvGo := -1, -1
		destroyed, failing := 0, 0
		defer func() {
			for _, f := range kept {
				f.Close()
			}
			for _, l := range envs {
				l.env.Destroy()
				os.RemoveAll(l.root)
			}
		}()
		tag := newTag()
		treeScript := func(s *probe.Script) {
			c12Emit(s, c12Node{Kind: "fork", SigIgn: true, Behave: "sleep-forever", Children: []c12Node{{Kind: "fork", Behave: "exit-now"}}})
			c12Emit(s, c12Node{Kind: "thread", Behave: "sleep-forever"})
			s.Add("sleep:2")
		}
		for ai, a := range c.Actions {
			desc := fmt.Sprintf("action #%d %+v of %+v", ai, a, c.Actions[:ai+1])
			var s probe.Script
			if a.Tree {
				treeScript(&s)
			}
			s.Add("exit:0")
			allow, _ := c12Filter()
			filter, _ := buildFilter(allow, nil, libseccomp.ActionKill)
			l := envs[a.Env]
			switch a.Kind {
			case "ptrace":
				tr, err := runTraced(tracedOpts{Script: &s, Filter: filter, Handler: &recHandler{}, Tag: tag})
				if err != nil {
					return err
				}
				if tr.Hung {
					killTagged(tag)
					return vh.Violf("C12:run-never-returns", "%s", desc)
				}
			case "unshare":
				tr, err := runUnshare(sandboxOpts{Script: &s, Filter: filter, Tag: tag})
				if err != nil {
					return err
				}
				if tr.Hung {
					killTagged(tag)
					return vh.Violf("C12:run-never-returns", "%s", desc)
				}
			case "build":
				if l != nil {
					continue
				}
				before := c12Measure()
				env, root, err := buildContainer(nil)
				if err != nil {
					return vh.Infraf("build: %v", err)
				}
				init := container.VerifInitPid(env)
				nl := &live{env: env, root: root, init: init}
				envs[a.Env] = nl
				m, _ := settle(func(m c12Counters) (bool, string) {
					return perEnvFds < 0 || (m.fds-before.fds == perEnvFds && m.goroutines-before.goroutines == perEnvGo), ""
				})
				if perEnvFds < 0 {
					time.Sleep(20 * time.Millisecond)
					m = c12Measure()
					perEnvFds, perEnvGo = m.fds-before.fds, m.goroutines-before.goroutines
				} else if m.fds-before.fds != perEnvFds || m.goroutines-before.goroutines != perEnvGo {
					return vh.Violf("C12:build-cost-differs", "%s: this Build added %d descriptors / %d goroutines, the first one %d / %d", desc, m.fds-before.fds, m.goroutines-before.goroutines, perEnvFds, perEnvGo)
				}
				ents, _ := os.ReadDir(fmt.Sprintf("/proc/%d/fd", init))
				nl.initFds = len(ents)
				nl.initKids = childrenOf(init)
			case "failing-build":
				b := &container.Builder{Mounts: mount.NewBuilder().WithBind(filepath.Join(dir, "does-not-exist"), "x", true).Mounts}
				env, root, err := buildContainer(b)
				if err == nil {
					env.Destroy()
					os.RemoveAll(root)
					return vh.Violf("C12:bad-build-succeeded", "%s", desc)
				}
				failing++
			case "broken-destroy":
				// the environment's transport fails first (a request that does not fit the frame, or the init is killed),
				// then the owner destroys it: the usual way a pool retires a broken environment
				if l == nil {
					continue
				}
				if a.Keep {
					syscall.Kill(l.init, syscall.SIGKILL)
					l.env.Ping()
				} else {
					l.env.Execve(context.Background(), container.ExecveParam{Args: []string{"/bin/true"}, Env: []string{"BIG=" + strings.Repeat("x", 48<<10)}})
				}
				failing++
				fallthrough
			case "destroy":
				if l == nil {
					continue
				}
				l.env.Destroy()
				os.RemoveAll(l.root)
				delete(envs, a.Env)
				destroyed++
				if _, err := os.Stat(fmt.Sprintf("/proc/%d", l.init)); err == nil {
					st := taggedPids("container_init")[l.init]
					if st != "Z" && st != "" {
						// the init must be gone (Destroy waits for it)
						return vh.Violf("C12:init-survives-destroy", "%s: init %d still exists after Destroy (state %q)", desc, l.init, st)
					}
				}
			case "ping":
				if l == nil {
					continue
				}
				if err := l.env.Ping(); err != nil {
					return vh.Violf("C12:env-broken", "%s: Ping: %v", desc, err)
				}
			case "reset":
				if l == nil {
					continue
				}
				if err := l.env.Reset(); err != nil {
					return vh.Violf("C12:env-broken", "%s: Reset: %v", desc, err)
				}
			case "open":
				if l == nil {
					continue
				}
				// besides files: targets that exist but are no regular files (directories, a FIFO somebody planted where an output
				// file was expected): refused, and nothing of the refusal may stay behind in the init
				fifo := fmt.Sprintf("/proc/%d/root/w/planted-fifo", l.init)
				if _, err := os.Lstat(fifo); err != nil {
					syscall.Mkfifo(fifo, 0o644)
				}
				openDone := make(chan struct{})
				var res []container.OpenCmdResult
				var err error
				go func() {
					res, err = l.env.Open([]container.OpenCmd{{Path: "/w/o1", Flag: os.O_RDWR | os.O_CREATE, Perm: 0o644}, {Path: "/w/missing/x", Flag: os.O_RDONLY},
						{Path: "/w", Flag: os.O_RDONLY}, {Path: "/tmp", Flag: os.O_RDONLY}, {Path: "/w/planted-fifo", Flag: os.O_RDONLY}, {Path: "/w/planted-fifo", Flag: os.O_RDWR},
						{Path: "/w/o2", Flag: os.O_RDWR | os.O_CREATE, Perm: 0o644}})
					close(openDone)
				}()
				select {
				case <-openDone:
				case <-time.After(10 * time.Second):
					if f, e := os.OpenFile(fifo, os.O_WRONLY|syscall.O_NONBLOCK, 0); e == nil {
						f.Close()
					}
					return vh.Violf("C12:run-never-returns", "%s: Open with directory / FIFO targets did not return in 10 s", desc)
				}
				if err != nil {
					return vh.Violf("C12:env-broken", "%s: Open: %v", desc, err)
				}
				for _, r := range res {
					if r.File != nil {
						if a.Keep {
							kept = append(kept, r.File)
						} else {
							r.File.Close()
						}
					}
				}
				failing++
			case "userns-fail":
				dn := devNullFile()
				r := &forkexec.Runner{Args: []string{"/bin/true"}, Env: []string{"A=1"}, Files: []uintptr{dn.Fd(), dn.Fd(), dn.Fd()}, CloneFlags: syscall.CLONE_NEWUSER,
					UIDMappings: []syscall.SysProcIDMap{{ContainerID: 0, HostID: 0, Size: 1}}, GIDMappings: []syscall.SysProcIDMap{{ContainerID: 0, HostID: 0, Size: 1}}, GIDMappingsEnableSetgroups: true}
				bad := []syscall.SysProcIDMap{{ContainerID: 0, HostID: 0, Size: 10}, {ContainerID: 5, HostID: 100000, Size: 10}} // overlapping: rejected when written
				if a.Keep {
					r.GIDMappings = bad
				} else {
					r.UIDMappings = bad
				}
				pid, err := r.Start()
				if err == nil {
					syscall.Kill(pid, syscall.SIGKILL)
					var ws syscall.WaitStatus
					syscall.Wait4(pid, &ws, 0, nil)
					return vh.Infraf("%s: an overlapping id map was accepted", desc)
				}
				failing++
			case "symlink":
				if l == nil {
					continue
				}
				if _, err := l.env.Symlink([]container.SymbolicLink{{LinkPath: "/w/l1", Target: "x"}, {LinkPath: "/w/nodir/l", Target: "x"}}); err != nil {
					return vh.Violf("C12:env-broken", "%s: Symlink: %v", desc, err)
				}
			case "delete":
				if l == nil {
					continue
				}
				l.env.Delete("/w/o1")
				l.env.Delete("/w/never-there")
			case "execve":
				if l == nil {
					continue
				}
				o := sandboxOpts{Script: &s, Env: l.env, Tag: tag, Filter: filter}
				switch a.Target {
				case "fail-before":
					// unknown relative name: fails in the container before fork
					res := l.env.Execve(context.Background(), container.ExecveParam{Args: []string{"no-such-command"}, Env: []string{"PATH=/bin"}})
					if res.Status != runner.StatusRunnerError {
						return vh.Violf("C12:failure-not-reported", "%s: %v", desc, res.Status)
					}
					failing++
					goto settleNow
				case "fail-after-sync":
					res := l.env.Execve(context.Background(), container.ExecveParam{Args: []string{"/w/definitely-missing"}, Env: []string{"PATH=/bin"}, SyncFunc: func(int) error { return nil }})
					if res.Status != runner.StatusRunnerError {
						return vh.Violf("C12:failure-not-reported", "%s: %v", desc, res.Status)
					}
					failing++
					goto settleNow
				case "cancel":
					var s2 probe.Script
					if a.Tree {
						treeScript(&s2)
					}
					s2.Add("sleep:600000")
					ctx, cancel := context.WithTimeout(context.Background(), 8*time.Millisecond)
					o.Script, o.Ctx = &s2, ctx
					tr, err := runContainer(o)
					cancel()
					if err != nil {
						return err
					}
					if tr.Hung {
						killTagged(tag)
						return vh.Violf("C12:run-never-returns", "%s", desc)
					}
					failing++
					goto settleNow
				case "sync-fail":
					o.SyncFunc = func(int) error { return errC07Callback }
					failing++
				case "sync-fail-after-exec":
					// the callback refuses once the program is running and has forked: everything it made has to be
					// killed *and reaped* by the init before the call returns
					o.SyncAfterExec = true
					o.SyncFunc = func(int) error {
						for dl := time.Now().Add(2 * time.Second); a.Tree && time.Now().Before(dl) && len(liveTagged(tag)) < 2; {
							time.Sleep(time.Millisecond)
						}
						return errC07Callback
					}
					failing++
				}
				tr, err := runContainer(o)
				if err != nil {
					return err
				}
				if tr.Hung {
					killTagged(tag)
					return vh.Violf("C12:run-never-returns", "%s", desc)
				}
			}
		settleNow:
			// ---- the invariant ----
			inits := map[int]bool{}
			var wantKids []int
			for _, e := range envs {
				inits[e.init] = true
				wantKids = append(wantKids, e.init)
			}
			sort.Ints(wantKids)
			if err := c12NoTagged(tag, inits, desc); err != nil {
				return err
			}
			nenv := len(envs)
			pf, pg := perEnvFds, perEnvGo
			if pf < 0 {
				pf, pg = 0, 0
			}
			wantFds := base.fds + nenv*pf + len(kept)
			wantGo := base.goroutines + nenv*pg
			m, why := settle(func(m c12Counters) (bool, string) {
				var kids []int
				for _, k := range m.children {
					found := false
					for _, b := range base.children {
						if b == k {
							found = true
						}
					}
					if !found {
						kids = append(kids, k)
					}
				}
				if m.fds != wantFds {
					return false, fmt.Sprintf("descriptors: %d, expected %d (baseline %d + %d env x %d + %d kept files)", m.fds, wantFds, base.fds, nenv, pf, len(kept))
				}
				if m.goroutines > wantGo {
					return false, fmt.Sprintf("goroutines: %d, expected %d (baseline %d + %d env x %d)", m.goroutines, wantGo, base.goroutines, nenv, pg)
				}
				if fmt.Sprint(kids) != fmt.Sprint(wantKids) {
					return false, fmt.Sprintf("child processes of the host process: %v, expected only the live container inits %v", kids, wantKids)
				}
				return true, ""
			})
			_ = m
			if why != "" {
				key := "C12:leak"
				switch {
				case strings.HasPrefix(why, "descriptors"):
					key = "C12:descriptor-leak"
				case strings.HasPrefix(why, "goroutines"):
					key = "C12:goroutine-leak"
				case strings.HasPrefix(why, "child"):
					key = "C12:child-leak"
				}
				extra := ""
				if key == "C12:descriptor-leak" {
					extra = fmt.Sprintf("; open now: %v", fdList())
				}
				return vh.Violf(key, "%s: %s%s", desc, why, extra)
			}
			for _, e := range envs {
				ents, _ := os.ReadDir(fmt.Sprintf("/proc/%d/fd", e.init))
				kids := childrenOf(e.init)
				okInit := false
				for i := 0; i < 100; i++ {
					ents, _ = os.ReadDir(fmt.Sprintf("/proc/%d/fd", e.init))
					kids = childrenOf(e.init)
					if len(ents) == e.initFds && fmt.Sprint(kids) == fmt.Sprint(e.initKids) {
						okInit = true
						break
					}
					time.Sleep(10 * time.Millisecond)
				}
				if !okInit {
					return vh.Violf("C12:init-residue", "%s: container init %d has %d descriptors (after Build: %d) and children %v (after Build: %v)", desc, e.init, len(ents), e.initFds, kids, e.initKids)
				}
			}
		}
		nt := failing >= 1 && destroyed >= 1
		rec.Case(c, nt, fmt.Sprintf("failing=%d destroyed=%d", min(failing, 5), min(destroyed, 3)))
		rec.Evals(len(c.Actions))
		if nt && rec.WantSample() && len(c.Actions) < 12 {
			rec.Sample(c)
		}
		return nil
	})
	_ = syscall.Getpid
}

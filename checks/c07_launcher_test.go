package checks

// C07, launcher-death part: the gate is "approval", not "no objection". A child that is waiting at the gate while the
// launcher is inside the callback must not take the launcher's disappearance (end of file on the sync socket) for an
// approval. A helper process (role c07launcher) starts a forkexec.Runner whose SyncFunc announces itself and blocks; the
// harness SIGKILLs the helper there and then watches for the target's first action (a marker file) and its report.

import (
	"bufio"
	"encoding/json"
	"fmt"
	"os"
	"os/exec"
	"path/filepath"
	"strings"
	"sync"
	"syscall"
	"testing"
	"time"

	"github.com/criyle/go-sandbox/pkg/forkexec"
	"github.com/criyle/go-sandbox/pkg/seccomp/libseccomp"
	"golang.org/x/sys/unix"

	"verif/internal/probe"
	"verif/internal/vh"
)

type c07LCase struct {
	Ptrace     bool
	Seccomp    bool
	NewUser    bool
	LateCgroup bool
	NFiles     int    // extra listed descriptors
	Marker     string `json:",omitempty"`
	Tag        string `json:",omitempty"`
}

func init() { roles["c07launcher"] = c07Launcher }

func c07Launcher() {
	var c c07LCase
	if err := json.Unmarshal([]byte(os.Getenv("VERIF_C07L")), &c); err != nil {
		os.Exit(3)
	}
	ann := os.NewFile(3, "announce")
	rep := os.NewFile(4, "report")
	say := func(f string, a ...any) { fmt.Fprintf(ann, f+"\n", a...) }
	efd, err := probeExecFd()
	if err != nil {
		say("infra %v", err)
		return
	}
	var s probe.Script
	s.Sys(sysNr["openat"], uint64(0xffffffffffffff9c), s.Str(c.Marker), syscall.O_CREAT|syscall.O_WRONLY, 0o644)
	s.Add("sleep:3000")
	s.Add("exit:0")
	dn := devNullFile()
	files := []uintptr{dn.Fd(), dn.Fd(), dn.Fd(), rep.Fd()}
	for i := 0; i < c.NFiles; i++ {
		files = append(files, dn.Fd())
	}
	r := &forkexec.Runner{Args: s.Argv(c.Tag, 3), Env: []string{"A=1"}, ExecFile: efd, Files: files, Ptrace: c.Ptrace, UnshareCgroupAfterSync: c.LateCgroup,
		SyncFunc: func(pid int) error {
			say("cb %d", pid)
			select {} // the launcher is busy (attaching the child to a control group, say) when it is killed
		}}
	if c.Seccomp {
		f, err := buildFilter(nil, nil, libseccomp.ActionAllow)
		if err != nil {
			say("infra %v", err)
			return
		}
		r.Seccomp = f.SockFprog()
	}
	if c.NewUser {
		r.CloneFlags = unix.CLONE_NEWUSER
		r.UIDMappings = []syscall.SysProcIDMap{{ContainerID: 0, HostID: 0, Size: 1}}
		r.GIDMappings = []syscall.SysProcIDMap{{ContainerID: 0, HostID: 0, Size: 1}}
		r.GIDMappingsEnableSetgroups = true
	}
	_, err = r.Start()
	say("returned %v", err)
	time.Sleep(time.Hour)
}

func c07LauncherRun(c c07LCase, dir string, rec *vh.Recorder) error {
	c.Tag = newTag()
	c.Marker = filepath.Join(dir, "launcher-marker-"+c.Tag)
	os.Remove(c.Marker)
	defer os.Remove(c.Marker)
	defer killTagged(c.Tag)
	cj, _ := json.Marshal(c)
	self, err := os.Executable()
	if err != nil {
		return vh.Infraf("%v", err)
	}
	apr, apw, err := os.Pipe()
	if err != nil {
		return vh.Infraf("%v", err)
	}
	defer apr.Close()
	rp, err := newReportPipe()
	if err != nil {
		apw.Close()
		return err
	}
	cmd := exec.Command(self)
	cmd.Env = append(os.Environ(), "VERIF_ROLE=c07launcher", "VERIF_C07L="+string(cj))
	cmd.ExtraFiles = []*os.File{apw, rp.pw}
	if err := cmd.Start(); err != nil {
		apw.Close()
		rp.finish()
		return vh.Infraf("launcher: %v", err)
	}
	apw.Close()
	lines := make(chan string, 8)
	go func() {
		sc := bufio.NewScanner(apr)
		for sc.Scan() {
			lines <- sc.Text()
		}
		close(lines)
	}()
	desc := fmt.Sprintf("%+v", c)
	childPid := 0
	select {
	case ln, ok := <-lines:
		if !ok || !strings.HasPrefix(ln, "cb ") {
			cmd.Process.Kill()
			cmd.Wait()
			rp.finish()
			if strings.HasPrefix(ln, "returned") {
				// the configuration is refused before the gate: nothing to observe here
				rec.Class("launch-refused-before-the-gate", 1)
				return nil
			}
			return vh.Infraf("launcher said %q", ln)
		}
		fmt.Sscanf(ln, "cb %d", &childPid)
	case <-time.After(20 * time.Second):
		cmd.Process.Kill()
		cmd.Wait()
		rp.finish()
		return vh.Infraf("launcher never reached its callback")
	}
	// the child is parked at the gate; its launcher goes away
	cmd.Process.Signal(syscall.SIGKILL)
	cmd.Wait()
	deadline := time.Now().Add(1500 * time.Millisecond)
	ran := false
	for time.Now().Before(deadline) {
		if _, err := os.Lstat(c.Marker); err == nil {
			ran = true
			break
		}
		time.Sleep(5 * time.Millisecond)
	}
	if childPid > 0 {
		syscall.Kill(childPid, syscall.SIGKILL)
	}
	killTagged(c.Tag)
	rep := rp.finish()
	if ran || len(rep.R) > 0 {
		return vh.Violf("C07:ran-without-approval", "the launcher was killed inside the callback (it never approved), yet the target executed (marker=%v, report %q); %s", ran, rep.Raw, desc)
	}
	rec.Case(c, true, fmt.Sprintf("launcher-killed-in-callback(ptrace=%v,seccomp=%v,userns=%v,latecgroup=%v)", c.Ptrace, c.Seccomp, c.NewUser, c.LateCgroup))
	if rec.WantSample() {
		rec.Sample(c)
	}
	return nil
}

func TestC07LauncherDies(t *testing.T) {
	rec := vh.NewRecorder(t, "C07", "fault_enumeration",
		"launcher-death part: forkexec.Runner x {Ptrace} x {Seccomp} x {new user namespace} x {late cgroup unshare} x 0..24 extra descriptors, started by a helper process whose SyncFunc announces itself and blocks; the helper is SIGKILLed there (the callback never returned, so nothing was approved); for 1.5 s the target's first action (a marker file) and its report must not appear; the 16 flag combinations are enumerated in the thorough tier and sampled in the quick tier")
	dir, err := vh.ScratchDir("c07l")
	if err != nil {
		t.Fatalf("INFRA: %v", err)
	}
	defer os.RemoveAll(dir)
	os.Chmod(dir, 0o777)
	if vh.ReplayIfRequested(t, rec, func(c c07LCase) error { return c07LauncherRun(c, dir, rec) }) {
		return
	}
	defer rec.Write()
	var cases []c07LCase
	for mask := 0; mask < 16; mask++ {
		if !vh.Thorough() && mask%3 != vh.Seed()%3 && mask != 0 && mask != 8 {
			continue
		}
		cases = append(cases, c07LCase{Ptrace: mask&1 != 0, Seccomp: mask&2 != 0, NewUser: mask&4 != 0, LateCgroup: mask&8 != 0, NFiles: []int{0, 4, 24}[mask%3]})
	}
	errs := make([]error, len(cases))
	var wg sync.WaitGroup
	sem := make(chan struct{}, 6)
	for i := range cases {
		wg.Add(1)
		go func(i int) {
			defer wg.Done()
			sem <- struct{}{}
			defer func() { <-sem }()
			errs[i] = c07LauncherRun(cases[i], dir, rec)
		}(i)
	}
	wg.Wait()
	for i, err := range errs {
		if err != nil {
			vh.Report(t, rec, cases[i], err)
		}
	}
	rec.Extra("launcher_death_configurations", len(cases))
}

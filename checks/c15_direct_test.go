package checks

// C15, tracer-level part: forkexec.Runner under ptracer.Tracer with a ptracer.Handler of the harness. The tracer calls
// Handler.Debug at fixed places of its loop ("------ <pid> ------" after every wait4, "seccomp traced" between the
// report of a seccomp stop and the tracer's first ptrace request on the stopped task); a Debug that takes a generated
// time there holds exactly the windows open in which another task of the program can kill the stopped one
// (exit_group, SIGKILL). The handler itself does what handlers do: reads the number, the arguments and a string.

import (
	"context"
	"fmt"
	"os"
	"strings"
	"sync/atomic"
	"syscall"
	"testing"
	"time"

	"github.com/criyle/go-sandbox/pkg/forkexec"
	"github.com/criyle/go-sandbox/pkg/seccomp/libseccomp"
	"github.com/criyle/go-sandbox/ptracer"
	"github.com/criyle/go-sandbox/runner"
	"pgregory.net/rapid"

	"verif/internal/probe"
	"verif/internal/vh"
)

type c15DCase struct {
	Scenario   string // thread-vs-exit kill-sibling kill-self-thread child-dies-in-parent-trap threads-vs-exit
	N          int    // traced calls per task
	SlowTrapUs int    // Debug("seccomp traced") takes this long
	SlowWaitUs int    // Debug("------ pid ------") takes this long
	MainWaitMs int    // main sleeps this long before it ends everything
	Ban        bool   // the handler bans (skips) the traced calls instead of allowing them
	Exit       int
}

type c15SlowHandler struct {
	c       c15DCase
	handled atomic.Int64
}

func (h *c15SlowHandler) Debug(v ...interface{}) {
	if len(v) == 0 {
		return
	}
	s, _ := v[0].(string)
	switch {
	case s == "seccomp traced" && h.c.SlowTrapUs > 0:
		time.Sleep(time.Duration(h.c.SlowTrapUs) * time.Microsecond)
	case strings.HasPrefix(s, "------") && h.c.SlowWaitUs > 0:
		time.Sleep(time.Duration(h.c.SlowWaitUs) * time.Microsecond)
	}
}

func (h *c15SlowHandler) Handle(ctx *ptracer.Context) ptracer.TraceAction {
	h.handled.Add(1)
	no := ctx.SyscallNo()
	_ = ctx.Arg1()
	if int(no) == sysNr["stat"] {
		_ = ctx.GetString(uintptr(ctx.Arg0()))
		if h.c.Ban {
			ctx.SetReturnValue(-int(syscall.EACCES))
			return ptracer.TraceBan
		}
	}
	return ptracer.TraceAllow
}

func c15DirectRun(c c15DCase, root string, rec *vh.Recorder) error {
	var s probe.Script
	existing := root + "/file"
	_ = os.WriteFile(existing, []byte("x"), 0o644)
	s.Sys(sysNr["getpid"]) // $0
	call := func() { s.Sys(sysNr["stat"], s.Str(existing), "!buf") }
	calls := func() {
		for i := 0; i < c.N; i++ {
			call()
		}
	}
	switch c.Scenario {
	case "thread-vs-exit":
		s.Add("thread{")
		calls()
		s.Add("}")
	case "threads-vs-exit":
		for t := 0; t < 3; t++ {
			s.Add("thread{")
			calls()
			s.Add("}")
		}
	case "kill-self-thread":
		s.Add("thread{")
		calls()
		s.Add("}")
		s.Add("thread{")
		s.Add(fmt.Sprintf("sleep:%d", c.MainWaitMs))
		s.Sys(sysNr["kill"], probe.Ref(0), 9)
		s.Add("}")
		s.Add("sleep:2000")
	case "kill-sibling":
		a := s.Add("fork{")
		calls()
		s.Add("sleep:2000")
		s.Add("}")
		s.Add("fork{")
		s.Add(fmt.Sprintf("sleep:%d", c.MainWaitMs))
		s.Sys(sysNr["kill"], probe.Ref(a), 9)
		s.Add("}")
		s.Add("waitn:2")
	case "child-dies-in-parent-trap":
		s.Add("fork{")
		call()
		s.Add("exit:0")
		s.Add("}")
		calls()
		s.Add("waitn:1")
	}
	if c.MainWaitMs > 0 && c.Scenario != "kill-sibling" && c.Scenario != "kill-self-thread" {
		s.Add(fmt.Sprintf("sleep:%d", c.MainWaitMs))
	}
	s.Add(fmt.Sprintf("exit:%d", c.Exit))

	allow := append([]string{"fork", "vfork", "clone", "kill", "rt_sigprocmask", "execve", "execveat"}, probeBaseAllow...)
	filter, err := buildFilter(allow, []string{"stat"}, libseccomp.ActionKill)
	if err != nil {
		return vh.Infraf("filter: %v", err)
	}
	efd, err := probeExecFd()
	if err != nil {
		return err
	}
	rp, err := newReportPipe()
	if err != nil {
		return err
	}
	dn := devNullFile()
	tag := newTag()
	ch := &forkexec.Runner{Args: s.Argv(tag, 3), Env: []string{"VP=1"}, ExecFile: efd, Files: []uintptr{dn.Fd(), dn.Fd(), dn.Fd(), rp.pw.Fd()},
		WorkDir: root, Seccomp: filter.SockFprog(), Ptrace: true}
	h := &c15SlowHandler{c: c}
	tracer := ptracer.Tracer{Handler: h, Runner: ch, Limit: runner.Limit{TimeLimit: 30 * time.Second, MemoryLimit: 1 << 30}}
	res, hung, _ := runWithTimeout(func() runner.Result { return tracer.Trace(context.Background()) }, 15*time.Second)
	if hung {
		states := taggedPids(tag)
		killTagged(tag)
		rp.finish()
		return vh.Violf("C15:no-progress", "tracer still blocked after 15s; tagged tasks and states: %v; %+v", states, c)
	}
	rp.finish()
	defer killTagged(tag)
	if res.Status == runner.StatusRunnerError {
		key := "C15:runner-error"
		if strings.Contains(res.Error, "no such process") {
			key = "C15:runner-error/esrch"
		}
		return vh.Violf(key, "Runner Error %q for a program whose tasks kill each other; %+v", res.Error, c)
	}
	if strings.Contains(res.Error, "runtime error") || strings.Contains(res.Error, "panic") {
		return vh.Violf("C15:tracer-panic", "status %v error %q; %+v", res.Status, res.Error, c)
	}
	switch res.Status {
	case runner.StatusNormal, runner.StatusNonzeroExitStatus, runner.StatusSignalled, runner.StatusTimeLimitExceeded, runner.StatusMemoryLimitExceeded,
		runner.StatusOutputLimitExceeded:
	case runner.StatusDisallowedSyscall:
		// no decision of this handler is kill and every call of the program is allowed or traced
		return vh.Violf("C15:esrch-reported-as-disallowed", "Disallowed Syscall (%q) although no decision was kill; %+v", res.Error, c)
	default:
		return vh.Violf("C15:not-a-verdict", "status %d (%v) error %q; %+v", int(res.Status), res.Status, res.Error, c)
	}
	if c.Scenario == "thread-vs-exit" || c.Scenario == "threads-vs-exit" || c.Scenario == "child-dies-in-parent-trap" {
		want := runner.StatusNormal
		if c.Exit != 0 {
			want = runner.StatusNonzeroExitStatus
		}
		if res.Status != want || res.ExitStatus != c.Exit {
			return vh.Violf("C15:verdict", "the program exits %d by itself but status %v exit %d err %q; %+v", c.Exit, res.Status, res.ExitStatus, res.Error, c)
		}
	}
	if l := liveTagged(tag); len(l) > 0 {
		return vh.Violf("C15:survivor", "tagged processes alive after the run: %v; %+v", l, c)
	}
	window := c.SlowTrapUs > 0 || c.SlowWaitUs > 0
	rec.Case(c, window, "direct-tracer", "scenario="+c.Scenario, fmt.Sprintf("held-window(trap=%v,wait=%v)", c.SlowTrapUs > 0, c.SlowWaitUs > 0), "status="+res.Status.String())
	rec.Evals(int(h.handled.Load()))
	if window && rec.WantSample() {
		rec.Sample(c)
	}
	return nil
}

func TestC15Direct(t *testing.T) {
	rec := vh.NewRecorder(t, "C15", "exploration",
		"tracer-level part: forkexec.Runner under ptracer.Tracer with a handler of the harness that reads number, arguments and a string like real handlers do and whose Debug callback takes 0..3000 us at the tracer's two fixed points (after every wait4; between a reported seccomp stop and the first ptrace request on the stopped task); programs: a thread / three threads making 1..20 traced calls while main calls exit_group after 0..5 ms, a thread SIGKILLing the process, a child SIGKILLing its sibling in a trap, a child exiting during its parent's trap; oracle as in the hostile part (a program verdict, never Runner Error / panic text / Disallowed Syscall without a kill decision, own ending for self-exiting programs, returns within 15 s, no survivor); non-trivial = a window was held open")
	rec.Assume("the windows are held open by the tracer's own Debug callbacks; which task dies inside them is still the OS scheduler's")
	root, err := vh.ScratchDir("c15d")
	if err != nil {
		t.Fatalf("INFRA: %v", err)
	}
	defer os.RemoveAll(root)
	vh.Check(t, rec, func(rt *rapid.T) c15DCase {
		c := c15DCase{Scenario: rapid.SampledFrom([]string{"thread-vs-exit", "thread-vs-exit", "threads-vs-exit", "kill-self-thread", "kill-sibling", "child-dies-in-parent-trap"}).Draw(rt, "scenario"),
			N: rapid.IntRange(1, 20).Draw(rt, "n"), MainWaitMs: rapid.SampledFrom([]int{0, 0, 1, 2, 5}).Draw(rt, "mainwait"), Ban: rapid.Bool().Draw(rt, "ban"),
			Exit: rapid.SampledFrom([]int{0, 0, 5}).Draw(rt, "exit")}
		c.SlowTrapUs = rapid.SampledFrom([]int{0, 200, 1000, 3000, 3000}).Draw(rt, "slowtrap")
		c.SlowWaitUs = rapid.SampledFrom([]int{0, 0, 200, 1000}).Draw(rt, "slowwait")
		return c
	}, func(c c15DCase) error { return c15DirectRun(c, root, rec) })
}

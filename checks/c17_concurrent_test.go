//go:build verif

package checks

// C17 — concurrent sandboxes in one process are independent: each run gives the same result, descriptor table and
// side effects as when run alone.

import (
	"context"
	"fmt"
	"io"
	"os"
	"path/filepath"
	"sort"
	"strings"
	"sync"
	"testing"
	"time"

	"github.com/criyle/go-sandbox/container"
	"github.com/criyle/go-sandbox/pkg/seccomp/libseccomp"
	"github.com/criyle/go-sandbox/ptracer"
	"github.com/criyle/go-sandbox/runner"
	"github.com/criyle/go-sandbox/runner/unshare"
	"golang.org/x/sys/unix"
	"pgregory.net/rapid"

	"verif/internal/probe"
	"verif/internal/vh"
)

type c17Desc struct {
	Kind    string // ptrace unshare container ping open
	Env     int    // container environment index
	Code    int
	NStat   int  // traced path calls (ptrace) / plain calls
	Cancel  bool // long sleeper, cancelled after a few ms
	SleepMs int
	BanOdd  bool // handler bans every second call (ptrace)
}

type c17Case struct {
	Descs   []c17Desc
	Stagger []int // microseconds
}

type c17Outcome struct {
	Status   string
	Exit     int
	Slot4    string // dev:ino seen by the program at descriptor 4
	FDNums   string // the descriptor numbers the program found open
	Output   string
	Records  []string // handler records (ptrace)
	Returns  string   // return values of the traced calls as the program saw them
	Foreign  string   // anything that belongs to another descriptor
	PidMatch string
	Err      string
}

func c17GenCase(rt *rapid.T) c17Case {
	var c c17Case
	n := rapid.IntRange(2, 16).Draw(rt, "n")
	for i := 0; i < n; i++ {
		d := c17Desc{Kind: rapid.SampledFrom([]string{"ptrace", "ptrace", "ptrace", "unshare", "unshare", "container", "container", "ping", "open", "build", "badexec"}).Draw(rt, "kind"),
			Env: rapid.IntRange(0, 2).Draw(rt, "env"), Code: 10 + i, NStat: rapid.SampledFrom([]int{3, 20, 150}).Draw(rt, "nstat"),
			Cancel: rapid.IntRange(0, 5).Draw(rt, "cancel") == 0, SleepMs: rapid.SampledFrom([]int{0, 0, 1, 5}).Draw(rt, "sleep"), BanOdd: rapid.Bool().Draw(rt, "banodd")}
		c.Descs = append(c.Descs, d)
		c.Stagger = append(c.Stagger, rapid.IntRange(0, 2000).Draw(rt, "stagger"))
	}
	return c
}

type c17World struct {
	dir     string
	envs    [3]*c09Env
	markers []*os.File
	idents  []string
}

func (w *c17World) marker(i int) (*os.File, string, error) {
	for len(w.markers) <= i {
		f, err := os.OpenFile(filepath.Join(w.dir, fmt.Sprintf("marker%d", len(w.markers))), os.O_RDWR|os.O_CREATE, 0o644)
		if err != nil {
			return nil, "", vh.Infraf("%v", err)
		}
		var st unix.Stat_t
		unix.Fstat(int(f.Fd()), &st)
		w.markers = append(w.markers, f)
		w.idents = append(w.idents, fmt.Sprintf("%d:%d", st.Dev, st.Ino))
	}
	return w.markers[i], w.idents[i], nil
}

func (w *c17World) close() {
	for _, e := range w.envs {
		if e != nil {
			e.close()
		}
	}
	for _, f := range w.markers {
		f.Close()
	}
}

func c17RunOne(w *c17World, i int, d c17Desc, start <-chan struct{}, stagger time.Duration) c17Outcome {
	var out c17Outcome
	mk, ident, err := w.marker(i)
	if err != nil {
		out.Err = err.Error()
		return out
	}
	_ = ident
	if start != nil {
		<-start
		time.Sleep(stagger)
	}
	switch d.Kind {
	case "ping":
		env, err := w.envs[d.Env].get()
		if err != nil {
			out.Err = err.Error()
			return out
		}
		if e := env.Ping(); e != nil {
			out.Status = "ping-error: " + e.Error()
		} else {
			out.Status = "pong"
		}
		return out
	case "open":
		env, err := w.envs[d.Env].get()
		if err != nil {
			out.Err = err.Error()
			return out
		}
		path := fmt.Sprintf("/w/open-%d", i)
		res, e := env.Open([]container.OpenCmd{{Path: path, Flag: os.O_RDWR | os.O_CREATE, Perm: 0o644}, {Path: fmt.Sprintf("/w/nodir-%d/x", i), Flag: os.O_RDONLY}})
		if e != nil {
			out.Status = "open-error: " + e.Error()
			return out
		}
		var parts []string
		for _, r := range res {
			if r.File != nil {
				l, _ := os.Readlink(fmt.Sprintf("/proc/self/fd/%d", r.File.Fd()))
				parts = append(parts, "file:"+filepath.Base(l))
				r.File.Close()
			} else {
				parts = append(parts, "err")
			}
		}
		out.Status = strings.Join(parts, ",")
		return out
	case "build":
		// a new environment comes into being while other runs fork
		env, root, err := buildContainer(nil)
		if err != nil {
			out.Err = err.Error()
			return out
		}
		out.Status = "built"
		if e := env.Ping(); e != nil {
			out.Status = "built, ping-error: " + e.Error()
		}
		env.Destroy()
		os.RemoveAll(root)
		return out
	case "badexec":
		// launches that fail in execve (the error paths of the launcher run next to other runs' descriptor set-up)
		filter, _ := buildFilter(nil, nil, libseccomp.ActionAllow)
		dn := devNullFile()
		for k := 0; k < d.NStat; k++ {
			r := &unshare.Runner{Args: []string{fmt.Sprintf("/nonexistent-%d", i)}, Env: []string{"VP=1"}, Files: []uintptr{dn.Fd(), dn.Fd(), dn.Fd()},
				Seccomp: filter, Limit: runner.Limit{TimeLimit: 5 * time.Second, MemoryLimit: 1 << 30}}
			res := r.Run(context.Background())
			st := res.Status.String()
			if strings.Contains(res.Error, "no such file") {
				st += ": no such file"
			} else {
				st += ": " + res.Error
			}
			if out.Status != "" && out.Status != st {
				out.Status += " | " + st
				break
			}
			out.Status = st
		}
		return out
	}
	// a program run
	var s probe.Script
	at := uint64(0xffffffffffffff9c)
	own := fmt.Sprintf("/own-path-%d", i)
	var statIdx []int
	for k := 0; k < d.NStat; k++ {
		statIdx = append(statIdx, s.Sys(sysNr["newfstatat"], at, s.Str(fmt.Sprintf("%s/%d", own, k)), "!buf", 0))
	}
	text := fmt.Sprintf("output-of-descriptor-%d-%s", i, strings.Repeat("x", i))
	s.Sys(sysNr["write"], 1, s.Str(text), len(text))
	s.Add("report:fds")
	pidIdx := s.Sys(sysNr["getpid"])
	if d.Cancel {
		s.Add("sleep:600000")
	} else if d.SleepMs > 0 {
		s.Add(fmt.Sprintf("sleep:%d", d.SleepMs))
	}
	s.Add(fmt.Sprintf("exit:%d", d.Code))
	opr, opw, err := os.Pipe()
	if err != nil {
		out.Err = err.Error()
		return out
	}
	outCh := make(chan string, 1)
	go func() { b, _ := io.ReadAll(opr); outCh <- string(b) }()
	ctx := context.Background()
	var cancel context.CancelFunc
	if d.Cancel {
		ctx, cancel = context.WithTimeout(ctx, 15*time.Millisecond)
		defer cancel()
	}
	var tr *tracedResult
	h := &recHandler{}
	ncall := 0
	h.Decide = func(r hRecord) ptracer.TraceAction {
		ncall++
		if d.BanOdd && ncall%2 == 1 {
			return ptracer.TraceBan
		}
		return ptracer.TraceAllow
	}
	syncPid := 0
	syncFn := func(pid int) error { syncPid = pid; return nil }
	allow := append([]string{"execve", "execveat"}, probeBaseAllow...)
	switch d.Kind {
	case "ptrace":
		filter, _ := buildFilter(allow, []string{"newfstatat"}, libseccomp.ActionKill)
		tr, err = runTraced(tracedOpts{Script: &s, Filter: filter, Handler: h, Ctx: ctx, Stdout: opw, Extra: []*os.File{mk}, SyncFunc: syncFn})
	case "unshare":
		tr, err = runUnshare(sandboxOpts{Script: &s, Ctx: ctx, Stdout: opw, Extra: []*os.File{mk}, SyncFunc: syncFn})
	case "container":
		var env container.Environment
		env, err = w.envs[d.Env].get()
		if err == nil {
			tr, err = runContainer(sandboxOpts{Script: &s, Ctx: ctx, Stdout: opw, Extra: []*os.File{mk}, Env: env, SyncFunc: syncFn})
		}
	}
	opw.Close()
	select {
	case out.Output = <-outCh:
	case <-time.After(30 * time.Second):
		// (a child of another run that is between fork and exec holds an inherited copy for a moment - seconds on a
		// saturated machine; a copy that stays is a leak into another sandbox)
		out.Output = "<output pipe still held open>"
	}
	opr.Close()
	if err != nil {
		out.Err = err.Error()
		return out
	}
	if tr.Hung {
		killTagged(tr.Tag)
		out.Status = "hung"
		return out
	}
	out.Status, out.Exit = tr.Result.Status.String(), tr.Result.ExitStatus
	if tr.Result.Status == runner.StatusRunnerError {
		out.Status += ": " + tr.Result.Error
	}
	if tr.Result.Status == runner.StatusTimeLimitExceeded {
		out.Exit = 0 // SIGKILL number differs between runners' reporting paths; not part of the comparison
	}
	for _, f := range tr.Report.FDs {
		out.FDNums += fmt.Sprintf("%d,", f.N)
		id := fmt.Sprintf("%d:%d", f.Dev, f.Ino)
		if f.N == 4 {
			out.Slot4 = id
		}
		for j, other := range w.idents {
			if j != i && id == other {
				out.Foreign += fmt.Sprintf("descriptor %d of this program is marker %d of another run; ", f.N, j)
			}
		}
	}
	for _, r := range h.Records {
		if r.Class == "syscall" {
			continue
		}
		out.Records = append(out.Records, r.Class+" "+r.Arg)
		// (a cancelled tracee may be killed inside a trap: its memory is gone and the handler sees the empty name
		// resolved against the cwd - not another run's data, and the verdict is TLE anyway)
		if !strings.HasPrefix(r.Arg, own+"/") && !d.Cancel {
			out.Foreign += fmt.Sprintf("handler of run %d was asked about %q; ", i, r.Arg)
		}
	}
	var rets []string
	for _, k := range statIdx {
		if v, ok := tr.Report.R[k]; ok {
			rets = append(rets, fmt.Sprint(v))
		} else {
			rets = append(rets, "-")
		}
	}
	out.Returns = strings.Join(rets, ",")
	if d.Kind == "ptrace" && !d.Cancel {
		if v, ok := tr.Report.R[pidIdx]; ok && int(v) != syncPid {
			out.PidMatch = fmt.Sprintf("SyncFunc saw pid %d, the program is pid %d", syncPid, v)
		}
	}
	if !strings.Contains(out.Output, text) && !d.Cancel {
		out.Foreign += fmt.Sprintf("output %q is not this run's text; ", out.Output)
	}
	if d.Cancel {
		out.Output, out.Returns, out.Records, out.Slot4, out.FDNums = "", "", nil, "", "" // how far a cancelled program got is timing
	}
	return out
}

func c17Run(c c17Case, w *c17World, rec *vh.Recorder) error {
	for _, d := range c.Descs {
		if d.Kind == "container" || d.Kind == "ping" || d.Kind == "open" {
			if _, err := w.envs[d.Env].get(); err != nil {
				return err
			}
		}
	}
	resetEnvs := func() {
		for _, e := range w.envs {
			if e.env != nil {
				e.env.Reset()
			}
		}
	}
	// alone
	resetEnvs()
	seq := make([]c17Outcome, len(c.Descs))
	for i, d := range c.Descs {
		seq[i] = c17RunOne(w, i, d, nil, 0)
		if seq[i].Err != "" {
			return vh.Infraf("sequential run %d: %s", i, seq[i].Err)
		}
	}
	// together
	resetEnvs()
	con := make([]c17Outcome, len(c.Descs))
	start := make(chan struct{})
	var wg sync.WaitGroup
	for i, d := range c.Descs {
		wg.Add(1)
		go func(i int, d c17Desc) {
			defer wg.Done()
			con[i] = c17RunOne(w, i, d, start, time.Duration(c.Stagger[i])*time.Microsecond)
		}(i, d)
	}
	// canaries: descriptors of the embedding application, opened and closed next to the runs, must stay its own
	stop := make(chan struct{})
	canary := make(chan string, 8)
	var cwg sync.WaitGroup
	for k := 0; k < 4; k++ {
		cwg.Add(1)
		go func() {
			defer cwg.Done()
			for n := 0; ; n++ {
				select {
				case <-stop:
					return
				default:
				}
				r, wr, err := os.Pipe()
				if err != nil {
					continue
				}
				var a, b unix.Stat_t
				rc, _ := r.SyscallConn()
				var e1, e2 error
				rc.Control(func(fd uintptr) { e1 = unix.Fstat(int(fd), &a) })
				time.Sleep(time.Duration(20+n%7*30) * time.Microsecond)
				rc.Control(func(fd uintptr) { e2 = unix.Fstat(int(fd), &b) })
				ec1, ec2 := r.Close(), wr.Close()
				if e1 != nil || e2 != nil || a.Ino != b.Ino || ec1 != nil || ec2 != nil {
					select {
					case canary <- fmt.Sprintf("a pipe of the application changed under it: fstat %v/%v inode %d->%d close %v/%v", e1, e2, a.Ino, b.Ino, ec1, ec2):
					default:
					}
					return
				}
			}
		}()
	}
	close(start)
	wg.Wait()
	close(stop)
	cwg.Wait()
	select {
	case msg := <-canary:
		return vh.Violf("C17:application-descriptor-disturbed", "%s; workload %+v", msg, c.Descs)
	default:
	}
	kinds := map[string]bool{}
	for i, d := range c.Descs {
		kinds[d.Kind] = true
		desc := fmt.Sprintf("descriptor %d %+v of %d concurrent ones", i, d, len(c.Descs))
		if con[i].Err != "" {
			return vh.Infraf("concurrent run %d: %s", i, con[i].Err)
		}
		if seq[i].Foreign != "" {
			return vh.Violf("C17:foreign-data", "even alone: %s; outcome %+v; %s", seq[i].Foreign, seq[i], desc)
		}
		if con[i].Foreign != "" {
			return vh.Violf("C17:foreign-data", "%s; outcome %+v (alone: %+v); %s", con[i].Foreign, con[i], seq[i], desc)
		}
		if con[i].PidMatch != "" {
			return vh.Violf("C17:pid", "%s; %s", con[i].PidMatch, desc)
		}
		a, b := seq[i], con[i]
		if d.Kind == "ping" && (strings.Contains(a.Status, "i/o timeout") || strings.Contains(b.Status, "i/o timeout")) {
			// container.Ping carries a wall-clock deadline of 3 s by design; on a saturated machine (the thorough tier runs
			// 8 shards of up to 16 concurrent runs on 16 cores) the container's init may not answer in time. That is the call's
			// own documented outcome, not one run reaching into another: the ping itself is not judged (a ping that disturbs
			// another run's call is what TestC17SlowCalls and the run descriptors here observe).
			rec.Class("ping-hit-its-own-3s-deadline(not judged)", 1)
			continue
		}
		sort.Strings(a.Records)
		sort.Strings(b.Records)
		if fmt.Sprintf("%+v", a) != fmt.Sprintf("%+v", b) {
			key := "C17:differs-from-alone"
			if strings.Contains(b.Status, "Runner Error") {
				key = "C17:differs-from-alone/runner-error"
			}
			return vh.Violf(key, "alone: %+v, concurrently: %+v; %s", a, b, desc)
		}
		// and both are what the descriptor asks for
		if (d.Kind == "ptrace" || d.Kind == "unshare" || d.Kind == "container") && !d.Cancel {
			if a.Status != runner.StatusNonzeroExitStatus.String() || a.Exit != d.Code || a.Slot4 != w.idents[i] {
				return vh.Violf("C17:wrong-result", "expected exit %d and marker %s at descriptor 4, got %+v; %s", d.Code, w.idents[i], a, desc)
			}
		}
		if d.Cancel && (d.Kind == "ptrace" || d.Kind == "unshare" || d.Kind == "container") && a.Status != runner.StatusTimeLimitExceeded.String() {
			return vh.Violf("C17:wrong-result", "cancelled run reports %+v; %s", a, desc)
		}
	}
	nt := len(c.Descs) >= 4 && len(kinds) >= 2
	rec.Case(c, nt, fmt.Sprintf("n=%d kinds=%d", len(c.Descs), len(kinds)))
	rec.Evals(2 * len(c.Descs))
	if nt && rec.WantSample() && len(c.Descs) <= 6 {
		rec.Sample(c)
	}
	return nil
}

func TestC17Concurrent(t *testing.T) {
	rec := vh.NewRecorder(t, "C17", "exploration",
		"case = workload of 2..16 run descriptors mixing ptrace runs (each on its own locked thread, 3/20/150 traced path calls on run-specific names, a handler that bans every second call or allows all), namespace runs, Execve on up to 3 environments, and Ping/Open on the same environments; every descriptor has its own marker file at descriptor 4, exit code, output text and optionally a cancellation; the workload is executed once sequentially and once concurrently (start barrier, 0..2 ms stagger); "+
			"oracle: per descriptor Status, exit code, identity of descriptor 4, output bytes, return values the program saw, handler record multiset and SyncFunc pid are identical in both executions and are the descriptor's own; no run sees another run's marker, path or output; non-trivial = >=4 concurrent descriptors of >=2 kinds")
	rec.Assume("schedule coverage is statistical: the harness cannot pin the OS scheduler inside forkAndExecInChild")
	dir, err := vh.ScratchDir("c17")
	if err != nil {
		t.Fatalf("INFRA: %v", err)
	}
	defer os.RemoveAll(dir)
	w := &c17World{dir: dir}
	for i := range w.envs {
		w.envs[i] = &c09Env{}
	}
	defer w.close()
	vh.Check(t, rec, c17GenCase, func(c c17Case) error { return c17Run(c, w, rec) })
}

// TestC17SlowCalls: a call on an environment while another call on the same environment is in flight for a long time.
func TestC17SlowCalls(t *testing.T) {
	rec := vh.NewRecorder(t, "C17", "exploration", "slow-call part: Ping / Open from other goroutines 0.2..0.6 s into a 3.6 s Execve on the same environment; the Execve must still return its own result (exit code), the other calls succeed afterwards, and the environment stays usable")
	defer rec.Write()
	rounds := vh.Scale(1, 4)
	for r := 0; r < rounds; r++ {
		ce := &c09Env{}
		env, err := ce.get()
		if err != nil {
			t.Fatalf("INFRA: %v", err)
		}
		var s probe.Script
		s.Add("sleep:3600")
		s.Add("exit:41")
		resCh := make(chan *tracedResult, 1)
		// the other calls start only once the Execve owns the environment (named host point "execve:wait"): from then on
		// nothing they do may reach the socket before the Execve has returned, however loaded the machine is
		inFlight := make(chan struct{})
		var once sync.Once
		container.VerifHook.Point = func(name string) {
			if name == "execve:wait" {
				once.Do(func() { close(inFlight) })
			}
		}
		go func() {
			tr, _ := runContainer(sandboxOpts{Script: &s, Env: env, Timeout: 60 * time.Second})
			resCh <- tr
		}()
		select {
		case <-inFlight:
		case <-time.After(30 * time.Second):
			t.Fatalf("INFRA: Execve never reached its wait point")
		}
		pingCh := make(chan error, 2)
		go func() { time.Sleep(time.Duration(200+100*r) * time.Millisecond); pingCh <- env.Ping() }()
		go func() {
			time.Sleep(time.Duration(400+50*r) * time.Millisecond)
			res, err := env.Open([]container.OpenCmd{{Path: "/w/slow", Flag: os.O_RDWR | os.O_CREATE, Perm: 0o644}})
			closeAll(res)
			pingCh <- err
		}()
		tr := <-resCh
		poisoned := false
		c := map[string]any{"round": r}
		rec.Case(c, true, "slow-call")
		if tr == nil || tr.Hung || tr.Result.Status != runner.StatusNonzeroExitStatus || tr.Result.ExitStatus != 41 {
			st := "nil"
			if tr != nil {
				st = fmt.Sprintf("hung=%v %v exit %d %q", tr.Hung, tr.Result.Status, tr.Result.ExitStatus, tr.Result.Error)
			}
			vh.Report(t, rec, c, vh.Violf("C17:inflight-call-disturbed", "an Execve that sleeps 3.6 s and exits 41 returned %s after Ping/Open were called on the same environment from other goroutines", st))
		}
		for k := 0; k < 2; k++ {
			select {
			case e := <-pingCh:
				if e != nil && strings.Contains(e.Error(), "i/o timeout") && tr != nil && tr.Result.ExitStatus == 41 {
					// Ping's own 3 s deadline fired on a saturated machine after the Execve had completed untouched: by design
					rec.Class("queued-ping-hit-its-own-3s-deadline(not judged)", 1)
					poisoned = true
				} else if e != nil {
					vh.Report(t, rec, c, vh.Violf("C17:queued-call-failed", "a call queued behind the long Execve failed: %v", e))
				}
			case <-time.After(10 * time.Second):
				vh.Report(t, rec, c, vh.Violf("C17:queued-call-hangs", "a call queued behind the long Execve never returned"))
			}
		}
		if e := env.Ping(); e != nil && !poisoned {
			vh.Report(t, rec, c, vh.Violf("C17:env-broken", "Ping afterwards: %v", e))
		}
		container.VerifHook.Point = nil
		ce.close()
		rec.Sample(c)
	}
}

//go:build verif

package checks

import (
	"fmt"
	"syscall"
	"testing"

	"github.com/criyle/go-sandbox/pkg/seccomp"
	"github.com/criyle/go-sandbox/pkg/seccomp/libseccomp"
	"github.com/criyle/go-sandbox/runner"
	"pgregory.net/rapid"

	"verif/internal/probe"
	"verif/internal/vh"
)

// ---- the filter a pooled container installs is the one given with *this* Execve ------------------------------

type c01CRun struct {
	Allowed  []int // indices into c01Samples that the policy allows
	Kill     bool  // default action kill (else errno)
	Last     int   // kill policies: the one sample call the program makes
	NoFilter bool
}

type c01CCase struct{ Runs []c01CRun }

var c01Samples = []string{"getuid", "getgid", "geteuid", "getegid", "getpgrp", "sched_yield", "umask", "times", "getpriority", "getsid"}

func TestC01Container(t *testing.T) {
	rec := vh.NewRecorder(t, "C01", "exploration",
		"container part: 2..5 consecutive Execve calls on one pooled environment, each with its own compiled policy (base list + a random subset of 10 harmless sample syscalls, default errno or kill, or no filter at all); the program issues the sample calls and reports each result; oracle: a call returns a real result iff *this* run's policy allows it, is refused iff not, and a kill policy ends the run by SIGSYS exactly when its one sample call is not listed; non-trivial = consecutive runs whose policies differ")
	ce := &c09Env{}
	defer ce.close()
	for _, n := range c01Samples {
		if _, ok := sysNr[n]; !ok {
			t.Fatalf("INFRA: no syscall number for %s", n)
		}
	}
	vh.Check(t, rec, func(rt *rapid.T) c01CCase {
		var c c01CCase
		n := rapid.IntRange(2, 5).Draw(rt, "runs")
		for i := 0; i < n; i++ {
			r := c01CRun{Kill: rapid.IntRange(0, 2).Draw(rt, "kill") == 0, Last: rapid.IntRange(0, len(c01Samples)-1).Draw(rt, "last"), NoFilter: rapid.IntRange(0, 7).Draw(rt, "nofilter") == 0}
			for k := range c01Samples {
				if rapid.Bool().Draw(rt, "allowed") {
					r.Allowed = append(r.Allowed, k)
				}
			}
			c.Runs = append(c.Runs, r)
		}
		return c
	}, func(c c01CCase) error {
		env, err := ce.get()
		if err != nil {
			return err
		}
		nt := false
		for ri, r := range c.Runs {
			allowed := map[int]bool{}
			allow := append([]string{"execve", "execveat"}, probeBaseAllow...)
			for _, k := range r.Allowed {
				allowed[k] = true
				allow = append(allow, c01Samples[k])
			}
			def := libseccomp.ActionErrno
			if r.Kill {
				def = libseccomp.ActionKill
			}
			var filter seccomp.Filter
			if !r.NoFilter {
				if filter, err = buildFilter(allow, nil, def); err != nil {
					return vh.Infraf("filter: %v", err)
				}
			}
			var s probe.Script
			idx := map[int]int{}
			if r.Kill {
				idx[r.Last] = s.Sys(sysNr[c01Samples[r.Last]])
			} else {
				for k, name := range c01Samples {
					idx[k] = s.Sys(sysNr[name])
				}
			}
			s.Add("exit:7")
			tr, err := runContainer(sandboxOpts{Script: &s, Filter: filter, Env: env})
			if err != nil {
				return err
			}
			desc := fmt.Sprintf("run #%d %+v of %+v: status %v exit %d %q", ri, r, c.Runs, tr.Result.Status, tr.Result.ExitStatus, tr.Result.Error)
			if tr.Hung {
				killTagged(tr.Tag)
				ce.close()
				return vh.Violf("C01:container-run-hung", "%s", desc)
			}
			mustDie := r.Kill && !r.NoFilter && !allowed[r.Last]
			died := tr.Result.Status == runner.StatusDisallowedSyscall || (tr.Result.Status == runner.StatusSignalled && tr.Result.ExitStatus == int(syscall.SIGSYS))
			finished := tr.Result.Status == runner.StatusNonzeroExitStatus && tr.Result.ExitStatus == 7
			if mustDie && !died {
				return vh.Violf("C01:container-filter-not-this-runs", "%s is not on the list of a kill policy but the program was not killed; %s", c01Samples[r.Last], desc)
			}
			if !mustDie && !finished {
				return vh.Violf("C01:container-filter-not-this-runs", "every call the program makes is allowed by this run's policy, yet it did not finish; %s", desc)
			}
			for k, i := range idx {
				v, ok := tr.Report.R[i]
				if mustDie {
					continue
				}
				if !ok {
					return vh.Violf("C01:container-filter-not-this-runs", "no result for %s; %s", c01Samples[k], desc)
				}
				want := r.NoFilter || allowed[k]
				if want != (v >= 0) {
					return vh.Violf("C01:container-filter-not-this-runs", "%s returned %d, this run's policy allows it: %v; %s", c01Samples[k], v, want, desc)
				}
			}
			if ri > 0 && fmt.Sprint(c.Runs[ri-1]) != fmt.Sprint(r) {
				nt = true
			}
			rec.Evals(len(idx))
		}
		rec.Case(c, nt, fmt.Sprintf("runs=%d", len(c.Runs)))
		if nt && rec.WantSample() {
			rec.Sample(c)
		}
		return nil
	})
}

//go:build verif

package checks

// C07 — sync gate: no target code before approval; failed launches never run and leave no child.
// One failure is injected per case by *real inputs* (bad mount source, overlapping id map, rlimit above the hard limit,
// malformed filter, missing executable, failing callback ...). No fault-injection hook is needed.

import (
	"context"
	"errors"
	"fmt"
	"os"
	"path/filepath"
	"sort"
	"strconv"
	"strings"
	"syscall"
	"testing"
	"time"

	"github.com/criyle/go-sandbox/container"
	"github.com/criyle/go-sandbox/pkg/forkexec"
	"github.com/criyle/go-sandbox/pkg/mount"
	"github.com/criyle/go-sandbox/pkg/rlimit"
	"github.com/criyle/go-sandbox/pkg/seccomp/libseccomp"
	"github.com/criyle/go-sandbox/runner"
	"golang.org/x/sys/unix"
	"pgregory.net/rapid"

	"verif/internal/probe"
	"verif/internal/vh"
)

type c07Case struct {
	Sync       bool
	NewUser    bool
	LateCgroup bool
	Seccomp    bool
	Pivot      bool
	Inject     string
	Shape      bool // a long descriptor list whose last entry is a read-write file with a number lower than its index
	K          int  // index for mount / rlimit injections
	N          int  // number of mounts / rlimits
}

var c07Injections = []string{"none", "clone-cgroupfd", "idmap", "setgroups-denied", "setgid-unmapped", "setuid-unmapped", "closed-fd", "ctty",
	"pivot-missing", "mount-source", "mount-mkdir", "workdir", "rlimit-inval", "rlimit-eperm", "filter-badjump", "filter-empty", "callback-error",
	"exec-missing", "exec-noexec", "exec-truncated", "exec-directory"}

func c07Normalize(c c07Case) c07Case {
	switch c.Inject {
	case "idmap", "setgroups-denied", "setgid-unmapped", "setuid-unmapped":
		c.NewUser = true
	case "pivot-missing", "mount-source", "mount-mkdir":
		c.Pivot = true
	case "callback-error":
		c.Sync = true
	case "filter-badjump", "filter-empty":
		c.Seccomp = true
	}
	if c.N < 1 {
		c.N = 1
	}
	if c.K >= c.N {
		c.K = c.N - 1
	}
	if c.K < 0 {
		c.K = 0
	}
	return c
}

func c07Children() []int {
	var out []int
	tasks, _ := os.ReadDir("/proc/self/task")
	for _, t := range tasks {
		b, _ := os.ReadFile("/proc/self/task/" + t.Name() + "/children")
		for _, f := range strings.Fields(string(b)) {
			p, _ := strconv.Atoi(f)
			out = append(out, p)
		}
	}
	sort.Ints(out)
	return out
}

func c07Expect(c c07Case) (loc forkexec.ErrorLocation, idx int, errnos []syscall.Errno) {
	switch c.Inject {
	case "clone-cgroupfd":
		return forkexec.LocClone, 0, []syscall.Errno{syscall.EBADF, syscall.EINVAL, syscall.ENOTDIR, syscall.EOPNOTSUPP}
	case "idmap":
		return forkexec.LocUnshareUserRead, 0, []syscall.Errno{syscall.EINVAL, syscall.EPERM}
	case "setgroups-denied":
		return forkexec.LocSetGroups, 0, []syscall.Errno{syscall.EPERM}
	case "setgid-unmapped":
		return forkexec.LocSetGid, 0, []syscall.Errno{syscall.EINVAL}
	case "setuid-unmapped":
		return forkexec.LocSetUid, 0, []syscall.Errno{syscall.EINVAL}
	case "closed-fd":
		return forkexec.LocDup3, 0, []syscall.Errno{syscall.EBADF}
	case "ctty":
		return forkexec.LocIoctl, 0, []syscall.Errno{syscall.ENOTTY}
	case "pivot-missing":
		return forkexec.LocMountTmpfs, 0, []syscall.Errno{syscall.ENOENT}
	case "mount-source":
		return forkexec.LocMount, c.K, []syscall.Errno{syscall.ENOENT}
	case "mount-mkdir":
		return forkexec.LocMountMkdir, c.K, []syscall.Errno{syscall.ENOTDIR, syscall.EEXIST, syscall.ENOENT}
	case "workdir":
		return forkexec.LocChdir, 0, []syscall.Errno{syscall.ENOENT}
	case "rlimit-inval":
		return forkexec.LocSetRlimit, c.K, []syscall.Errno{syscall.EINVAL}
	case "rlimit-eperm":
		return forkexec.LocSetRlimit, c.K, []syscall.Errno{syscall.EPERM}
	case "filter-badjump", "filter-empty":
		return forkexec.LocSeccomp, 0, []syscall.Errno{syscall.EINVAL}
	case "exec-missing":
		return forkexec.LocExecve, 0, []syscall.Errno{syscall.ENOENT}
	case "exec-noexec", "exec-directory":
		return forkexec.LocExecve, 0, []syscall.Errno{syscall.EACCES}
	case "exec-truncated":
		return forkexec.LocExecve, 0, []syscall.Errno{syscall.ENOEXEC}
	}
	return 0, 0, nil
}

var errC07Callback = errors.New("callback says no")

func c07Run(c c07Case, dir string, rec *vh.Recorder) error {
	c = c07Normalize(c)
	os.RemoveAll(filepath.Join(dir, "w"))
	os.MkdirAll(filepath.Join(dir, "w"), 0o755)
	marker := filepath.Join(dir, "w", "marker")
	rp, err := newReportPipe()
	if err != nil {
		return err
	}
	dn := devNullFile()
	var s probe.Script
	s.Sys(sysNr["openat"], uint64(0xffffffffffffff9c), s.Str(marker), syscall.O_CREAT|syscall.O_WRONLY, 0o644)
	s.Add("report:ids")
	s.Add("exit:0")
	tag := newTag()
	argv := s.Argv(tag, 3)
	argv[0] = probe.Path()
	r := &forkexec.Runner{Args: argv, Env: []string{"A=1"}, Files: []uintptr{dn.Fd(), dn.Fd(), dn.Fd(), rp.pw.Fd()}, UnshareCgroupAfterSync: c.LateCgroup}
	if c.Shape {
		// the internal sync socket lands inside 0..n-1 and has to be moved; the last entry has to be parked first.
		// If the two ever end up on the same number the child talks to the caller's file instead of the launcher.
		uf, err := os.OpenFile(filepath.Join(dir, "userfile"), os.O_RDWR|os.O_CREATE|os.O_TRUNC, 0o644)
		if err != nil {
			rp.finish()
			return vh.Infraf("%v", err)
		}
		defer uf.Close()
		uf.Write(make([]byte, 64))
		uf.Seek(0, 0)
		for len(r.Files) < int(uf.Fd())+6 {
			r.Files = append(r.Files, dn.Fd())
		}
		r.Files = append(r.Files, uf.Fd())
	}
	if c.NewUser {
		r.CloneFlags |= unix.CLONE_NEWUSER
		r.UIDMappings = []syscall.SysProcIDMap{{ContainerID: 0, HostID: 0, Size: 1}, {ContainerID: 1234, HostID: 101234, Size: 1}}
		r.GIDMappings = []syscall.SysProcIDMap{{ContainerID: 0, HostID: 0, Size: 1}, {ContainerID: 2345, HostID: 102345, Size: 1}}
		r.GIDMappingsEnableSetgroups = true
	}
	if c.Seccomp {
		f, err := buildFilter(nil, nil, libseccomp.ActionAllow)
		if err != nil {
			rp.finish()
			return vh.Infraf("filter: %v", err)
		}
		r.Seccomp = f.SockFprog()
	}
	pivotRoot := filepath.Join(dir, "root")
	if c.Pivot {
		os.MkdirAll(pivotRoot, 0o755)
		efd, err := probeExecFd()
		if err != nil {
			rp.finish()
			return err
		}
		r.ExecFile = efd
		r.CloneFlags |= unix.CLONE_NEWNS
		r.PivotRoot = pivotRoot
		b := mount.NewBuilder()
		for i := 0; i < c.N; i++ {
			b.WithTmpfs(fmt.Sprintf("t%d", i), "")
		}
		b.WithBind(filepath.Join(dir, "w"), "w", false)
		mp, err := b.Build()
		if err != nil {
			rp.finish()
			return vh.Infraf("mount build: %v", err)
		}
		r.Mounts = mp
		r.WorkDir = "/w"
		marker = filepath.Join(dir, "w", "marker") // visible through the rw bind as /w/marker
		s2 := probe.Script{}
		s2.Sys(sysNr["openat"], uint64(0xffffffffffffff9c), s2.Str("/w/marker"), syscall.O_CREAT|syscall.O_WRONLY, 0o644)
		s2.Add("report:ids")
		s2.Add("exit:0")
		r.Args = s2.Argv(tag, 3)
		r.Args[0] = "/vprobe"
	}
	var (
		cbRan          bool
		cbStart, cbEnd time.Time
		cbPid          int
		cbProblem      string
		nsPid          string
		markerEarly    bool // the target's first action was visible before the callback returned
	)
	self, _ := os.Readlink("/proc/self/exe")
	if c.Sync {
		r.SyncFunc = func(pid int) error {
			cbRan, cbPid, cbStart = true, pid, time.Now()
			time.Sleep(30 * time.Millisecond) // a prematurely released child would have run by now
			exe, err := os.Readlink(fmt.Sprintf("/proc/%d/exe", pid))
			if err != nil || exe != self {
				cbProblem = fmt.Sprintf("/proc/%d/exe = %q (%v): not the launcher image %q any more", pid, exe, err, self)
			}
			st, _ := os.ReadFile(fmt.Sprintf("/proc/%d/status", pid))
			for _, ln := range strings.Split(string(st), "\n") {
				if strings.HasPrefix(ln, "PPid:") && strings.TrimSpace(ln[5:]) != strconv.Itoa(os.Getpid()) {
					cbProblem = "pid given to the callback is not a child of the launcher: " + ln
				}
				if strings.HasPrefix(ln, "NSpid:") {
					f := strings.Fields(ln)
					nsPid = f[len(f)-1]
				}
			}
			cbEnd = time.Now()
			if _, err := os.Stat(marker); err == nil {
				markerEarly = true
			}
			if c.Inject == "callback-error" {
				return errC07Callback
			}
			return nil
		}
	}
	// the injection
	closeAfter := []int{}
	defer func() {
		for _, fd := range closeAfter {
			syscall.Close(fd)
		}
	}()
	switch c.Inject {
	case "clone-cgroupfd":
		r.CgroupFd = dn.Fd()
	case "idmap":
		r.UIDMappings = []syscall.SysProcIDMap{{ContainerID: 0, HostID: 0, Size: 10}, {ContainerID: 5, HostID: 100000, Size: 10}} // overlapping
	case "setgroups-denied":
		r.GIDMappingsEnableSetgroups = false
		r.Credential = &syscall.Credential{Uid: 1234, Gid: 2345, Groups: []uint32{2345}}
	case "setgid-unmapped":
		r.Credential = &syscall.Credential{Uid: 1234, Gid: 999, NoSetGroups: true}
	case "setuid-unmapped":
		r.Credential = &syscall.Credential{Uid: 999, Gid: 2345, NoSetGroups: true}
	case "closed-fd":
		r.Files = append(r.Files, 777)
	case "ctty":
		r.CTTY = true
	case "pivot-missing":
		r.PivotRoot = filepath.Join(dir, "no-such-root")
	case "mount-source":
		bad := mount.Mount{Source: filepath.Join(dir, "no-such-source"), Target: fmt.Sprintf("t%d", c.K), Flags: syscall.MS_BIND}
		sp, _ := bad.ToSyscall()
		r.Mounts[c.K] = *sp
	case "mount-mkdir":
		// target below a regular file that an earlier entry created: use a file bind first
		os.WriteFile(filepath.Join(dir, "w", "afile"), []byte("x"), 0o644)
		fb := mount.NewBuilder().WithBind(filepath.Join(dir, "w", "afile"), "f", true)
		fps, err := fb.Build()
		if err != nil {
			rp.finish()
			return vh.Infraf("mount build: %v", err)
		}
		bad := mount.Mount{Source: "tmpfs", Target: "f/sub", FsType: "tmpfs"}
		sp, _ := bad.ToSyscall()
		ms := append([]mount.SyscallParams{}, fps...)
		for i := 0; i < c.K; i++ {
			ms = append(ms, r.Mounts[i])
		}
		c.K = len(ms)
		ms = append(ms, *sp)
		r.Mounts = ms
	case "workdir":
		r.WorkDir = filepath.Join(dir, "no-such-dir")
		if c.Pivot {
			r.WorkDir = "/no-such-dir"
		}
	case "rlimit-inval", "rlimit-eperm":
		for i := 0; i < c.N; i++ {
			r.RLimits = append(r.RLimits, rlimit.RLimit{Res: syscall.RLIMIT_CORE, Rlim: syscall.Rlimit{Cur: 0, Max: 0}})
		}
		if c.Inject == "rlimit-inval" {
			r.RLimits[c.K] = rlimit.RLimit{Res: syscall.RLIMIT_CPU, Rlim: syscall.Rlimit{Cur: 10, Max: 5}}
		} else {
			r.RLimits[c.K] = rlimit.RLimit{Res: syscall.RLIMIT_NOFILE, Rlim: syscall.Rlimit{Cur: 100, Max: 1 << 30}}
		}
	case "filter-badjump":
		bad := []syscall.SockFilter{{Code: 0x15, Jt: 200, Jf: 200, K: 0}, {Code: 0x06, K: 0x7fff0000}}
		r.Seccomp = &syscall.SockFprog{Len: 2, Filter: &bad[0]}
	case "filter-empty":
		bad := []syscall.SockFilter{{Code: 0x06, K: 0x7fff0000}}
		r.Seccomp = &syscall.SockFprog{Len: 0, Filter: &bad[0]}
	case "exec-missing":
		r.ExecFile = 0
		r.Args[0] = filepath.Join(dir, "w", "missing-exe")
		if c.Pivot {
			r.Args[0] = "/w/missing-exe"
		}
	case "exec-noexec", "exec-truncated", "exec-directory":
		p := filepath.Join(dir, "w", "bad-exe")
		os.RemoveAll(p)
		switch c.Inject {
		case "exec-noexec":
			os.WriteFile(p, []byte("#!/bin/sh\n"), 0o644)
		case "exec-truncated":
			os.WriteFile(p, []byte("\x7fELF\x02"), 0o755)
		default:
			os.Mkdir(p, 0o755)
		}
		r.ExecFile = 0
		r.Args[0] = p
		if c.Pivot {
			r.Args[0] = "/w/bad-exe"
		}
	}

	before := c07Children()
	pid, serr := r.Start()
	after := c07Children()
	started := time.Now()
	_ = started
	// a successful start: reap the target
	if serr == nil {
		var ws syscall.WaitStatus
		waited := make(chan struct{})
		go func() { syscall.Wait4(pid, &ws, 0, nil); close(waited) }()
		select {
		case <-waited:
		case <-time.After(10 * time.Second):
			syscall.Kill(pid, syscall.SIGKILL)
			<-waited
			rp.finish()
			return vh.Violf("C07:target-hung", "started target did not finish: %+v", c)
		}
	}
	rep := rp.finish()
	_, markerErr := os.Stat(marker)
	targetRan := markerErr == nil || len(rep.R) > 0
	desc := fmt.Sprintf("%+v", c)
	if cbProblem != "" {
		return vh.Violf("C07:callback-pid", "%s; %s", cbProblem, desc)
	}
	if c.Sync && cbRan && cbPid <= 0 {
		return vh.Violf("C07:callback-pid", "callback pid %d; %s", cbPid, desc)
	}

	wantLoc, wantIdx, wantErrnos := c07Expect(c)
	if c.Inject == "none" {
		if serr != nil {
			return vh.Violf("C07:valid-launch-failed", "Start: %v; %s", serr, desc)
		}
		if !targetRan || markerErr != nil {
			return vh.Violf("C07:target-did-not-run", "successful Start but no marker/report (%q); %s", rep.Raw, desc)
		}
		if c.Sync {
			if !cbRan {
				return vh.Violf("C07:callback-skipped", "SyncFunc was never called; %s", desc)
			}
			// (a causal observation, not a comparison of clocks: file times come from the kernel's coarse clock, which on a
			// loaded VM lagged the callback's own clock by more than 10 ms)
			if markerEarly {
				return vh.Violf("C07:ran-before-approval", "the target's marker existed when the callback (%v .. %v) was about to return: target code ran before approval; %s", cbStart, cbEnd, desc)
			}
			if got := rep.IDs["pid"]; len(got) == 1 && nsPid != "" && strconv.FormatInt(got[0], 10) != nsPid {
				return vh.Violf("C07:callback-pid", "callback's process has NSpid %s, the target reports pid %d; %s", nsPid, got[0], desc)
			}
			if cbPid != pid {
				return vh.Violf("C07:callback-pid", "callback got pid %d, Start returned %d; %s", cbPid, pid, desc)
			}
		}
	} else {
		if serr == nil {
			return vh.Violf("C07:failure-not-reported", "Start returned pid %d and no error although %s must fail; %s", pid, c.Inject, desc)
		}
		if targetRan {
			return vh.Violf("C07:target-ran-after-failure", "launch failed (%v) but the target executed (marker=%v report=%q); %s", serr, markerErr == nil, rep.Raw, desc)
		}
		if c.Inject == "callback-error" {
			if !errors.Is(serr, errC07Callback) {
				return vh.Violf("C07:wrong-error", "callback error not returned: %v; %s", serr, desc)
			}
		} else {
			ce, ok := serr.(forkexec.ChildError)
			if !ok {
				return vh.Violf("C07:wrong-error", "error %v (%T) is not a ChildError naming the step; %s", serr, serr, desc)
			}
			okErrno := false
			for _, e := range wantErrnos {
				if ce.Err == e {
					okErrno = true
				}
			}
			if ce.Location != wantLoc || ce.Index != wantIdx || !okErrno {
				return vh.Violf("C07:wrong-step", "error %q (loc %v idx %d errno %d), injected %s expects loc %v idx %d errno in %v; %s", ce.Error(), ce.Location, ce.Index, ce.Err, c.Inject, wantLoc, wantIdx, wantErrnos, desc)
			}
		}
		if fmt.Sprint(before) != fmt.Sprint(after) {
			return vh.Violf("C07:child-not-reaped", "children before %v after %v: the failed child was not killed and reaped when Start returned; %s", before, after, desc)
		}
		if pid != 0 {
			return vh.Violf("C07:pid-on-failure", "Start returned pid %d together with error %v; %s", pid, serr, desc)
		}
	}
	if l := liveTagged(tag); len(l) > 0 {
		killTagged(tag)
		return vh.Violf("C07:survivor", "tagged process alive: %v; %s", l, desc)
	}
	nt := c.Inject != "none" && (c.K >= 1 || wantLoc > forkexec.LocSetUid || c.Inject == "callback-error")
	rec.Case(c, nt, "inject="+c.Inject, fmt.Sprintf("sync=%v newuser=%v late=%v", c.Sync, c.NewUser, c.LateCgroup))
	if nt && rec.WantSample() {
		rec.Sample(c)
	}
	return nil
}

const c07Rule = "case = launch configuration {SyncFunc, user namespace, late cgroup unshare, seccomp, pivot root with N mounts} x one failure injected by real inputs at: clone (bad cgroup fd), id-map write (overlapping map), setgroups (denied), setgid/setuid (unmapped id), descriptor setup (closed fd), ctty (not a tty), pivot root (missing), mount k (missing source / target below a file), chdir, rlimit k (soft>hard / above the hard limit), seccomp load (bad jump / empty program), callback error, execve (missing / not executable / truncated ELF / directory), or none; " +
	"oracle = ChildError{Location,Index,Err} names the step, marker file and report pipe show the target never ran, /proc/self/task/*/children unchanged on return, callback sees the launcher image and the right pid and finishes before the marker's mtime; non-trivial = failure at a step after an earlier step that had to succeed; the enumeration test crosses every injection with 8 configurations"

func TestC07Forkexec(t *testing.T) {
	rec := vh.NewRecorder(t, "C07", "fault_enumeration", c07Rule)
	dir, err := vh.ScratchDir("c07")
	if err != nil {
		t.Fatalf("INFRA: %v", err)
	}
	defer os.RemoveAll(dir)
	dir, _ = filepath.EvalSymlinks(dir)
	os.Chmod(dir, 0o755)
	vh.Check(t, rec, func(rt *rapid.T) c07Case {
		c := c07Case{Sync: rapid.Bool().Draw(rt, "sync"), NewUser: rapid.Bool().Draw(rt, "newuser"), LateCgroup: rapid.Bool().Draw(rt, "late"),
			Seccomp: rapid.Bool().Draw(rt, "seccomp"), Pivot: rapid.IntRange(0, 2).Draw(rt, "pivot") == 0,
			Inject: rapid.SampledFrom(c07Injections).Draw(rt, "inject"), N: rapid.IntRange(1, 5).Draw(rt, "n"), Shape: rapid.IntRange(0, 3).Draw(rt, "shape") == 0}
		c.K = rapid.IntRange(0, c.N-1).Draw(rt, "k")
		return c07Normalize(c)
	}, func(c c07Case) error { return c07Run(c, dir, rec) })
}

func TestC07Enumerate(t *testing.T) {
	rec := vh.NewRecorder(t, "C07", "fault_enumeration", c07Rule)
	dir, err := vh.ScratchDir("c07e")
	if err != nil {
		t.Fatalf("INFRA: %v", err)
	}
	defer os.RemoveAll(dir)
	dir, _ = filepath.EvalSymlinks(dir)
	os.Chmod(dir, 0o755)
	if vh.ReplayIfRequested(t, rec, func(c c07Case) error { return c07Run(c, dir, rec) }) {
		return
	}
	defer rec.Write()
	n := 0
	for _, inj := range c07Injections {
		for cfg := 0; cfg < 8; cfg++ {
			ks := []int{0}
			if strings.HasPrefix(inj, "mount-") || strings.HasPrefix(inj, "rlimit-") {
				ks = []int{0, 1, 3}
			}
			for _, k := range ks {
				c := c07Normalize(c07Case{Sync: cfg&1 != 0, NewUser: cfg&2 != 0, LateCgroup: cfg&4 != 0, Seccomp: cfg%3 == 0, Pivot: cfg%5 == 0, Inject: inj, N: 4, K: k, Shape: cfg == 1 || cfg == 6})
				if err := c07Run(c, dir, rec); err != nil {
					vh.Report(t, rec, c, err)
					if _, infra := err.(vh.Infra); infra {
						return
					}
				}
				n++
			}
		}
	}
	rec.SetExhaustive(true)
	rec.Extra("fault_points_x_configurations", n)
}

// ---- container ---------------------------------------------------------------------------------------------

type c07CCase struct {
	Sync      string // none | ok | fail
	AfterExec bool
	Target    string // ok | missing-abs | missing-rel | noexec | truncated | directory
}

func TestC07Container(t *testing.T) {
	rec := vh.NewRecorder(t, "C07", "fault_enumeration", "container part: Execve with SyncFunc in {nil, ok, failing} x SyncAfterExec x target in {probe, missing absolute, missing relative, not executable, truncated ELF, directory}; the callback's pid must be a child of the container init still running the launcher image (or the init itself when synchronising after exec), a failing callback or launch step means the target never runs (sync-before), an error is reported and nothing tagged survives")
	ce := &c09Env{}
	defer ce.close()
	self, _ := os.Readlink("/proc/self/exe")
	vh.Check(t, rec, func(rt *rapid.T) c07CCase {
		return c07CCase{Sync: rapid.SampledFrom([]string{"none", "ok", "ok", "fail"}).Draw(rt, "sync"), AfterExec: rapid.Bool().Draw(rt, "after"),
			Target: rapid.SampledFrom([]string{"ok", "ok", "missing-abs", "missing-rel", "noexec", "truncated", "directory"}).Draw(rt, "target")}
	}, func(c c07CCase) error {
		env, err := ce.get()
		if err != nil {
			return err
		}
		initPid := container.VerifInitPid(env)
		rp, err := newReportPipe()
		if err != nil {
			return err
		}
		dn := devNullFile()
		var s probe.Script
		s.Sys(sysNr["openat"], uint64(0xffffffffffffff9c), s.Str("/w/marker"), syscall.O_CREAT|syscall.O_WRONLY, 0o644)
		s.Add("report:ids")
		s.Add("exit:0")
		tag := newTag()
		p := container.ExecveParam{Args: s.Argv(tag, 3), Env: []string{"PATH=/bin"}, Files: []uintptr{dn.Fd(), dn.Fd(), dn.Fd(), rp.pw.Fd()}, SyncAfterExec: c.AfterExec}
		env.Delete("/w/marker")
		switch c.Target {
		case "ok":
			efd, err := probeExecFd()
			if err != nil {
				rp.finish()
				return err
			}
			p.ExecFile = efd
			p.Args[0] = "/vprobe"
		case "missing-abs":
			p.Args[0] = "/w/definitely-missing"
		case "missing-rel":
			p.Args[0] = "definitely-missing"
		default:
			flag, perm := os.O_WRONLY|os.O_CREATE|os.O_TRUNC, os.FileMode(0o644)
			content := []byte("#!/bin/sh\n")
			if c.Target == "truncated" {
				perm, content = 0o755, []byte("\x7fELF\x02")
			}
			if c.Target == "directory" {
				res, err := env.Open([]container.OpenCmd{{Path: "/w/bad-dir/x", Flag: flag, Perm: 0o644, MkdirAll: true}})
				if err != nil || res[0].Err != nil {
					rp.finish()
					return vh.Infraf("prepare bad dir: %v %v", err, res)
				}
				res[0].File.Close()
				p.Args[0] = "/w/bad-dir"
			} else {
				env.Delete("/w/bad-exe")
				res, err := env.Open([]container.OpenCmd{{Path: "/w/bad-exe", Flag: flag, Perm: perm}})
				if err != nil || res[0].Err != nil {
					rp.finish()
					return vh.Infraf("prepare bad exe: %v %v", err, res)
				}
				res[0].File.Write(content)
				res[0].File.Close()
				p.Args[0] = "/w/bad-exe"
			}
		}
		var cbRan bool
		var cbProblem string
		var cbEnd time.Time
		markerEarly := false
		if c.Sync != "none" {
			p.SyncFunc = func(pid int) error {
				cbRan = true
				time.Sleep(30 * time.Millisecond)
				st, err := os.ReadFile(fmt.Sprintf("/proc/%d/status", pid))
				if err != nil {
					cbProblem = fmt.Sprintf("pid %d given to the callback does not exist on the host: %v", pid, err)
				}
				if c.AfterExec {
					if pid != initPid {
						cbProblem = fmt.Sprintf("sync-after-exec callback got pid %d, the container init is %d", pid, initPid)
					}
				} else {
					exe, _ := os.Readlink(fmt.Sprintf("/proc/%d/exe", pid))
					if exe != self {
						cbProblem = fmt.Sprintf("/proc/%d/exe = %q: the target is already running when the callback is asked", pid, exe)
					}
					for _, ln := range strings.Split(string(st), "\n") {
						if strings.HasPrefix(ln, "PPid:") && strings.TrimSpace(ln[5:]) != strconv.Itoa(initPid) {
							cbProblem = fmt.Sprintf("callback pid %d is not a child of the container init %d: %s", pid, initPid, ln)
						}
					}
				}
				cbEnd = time.Now()
				if _, err := os.Lstat(fmt.Sprintf("/proc/%d/root/w/marker", initPid)); err == nil {
					markerEarly = true
				}
				if c.Sync == "fail" {
					return errC07Callback
				}
				return nil
			}
		}
		res, hung, _ := runWithTimeout(func() runner.Result { return env.Execve(context.Background(), p) }, 0)
		rep := rp.finish()
		if hung {
			ce.close()
			return vh.Violf("C07:hung", "container Execve did not return; %+v", c)
		}
		desc := fmt.Sprintf("%+v -> %v exit %d %q", c, res.Status, res.ExitStatus, res.Error)
		if cbProblem != "" {
			return vh.Violf("C07:callback-pid", "%s; %s", cbProblem, desc)
		}
		markerThere := false
		if r2, err := env.Open([]container.OpenCmd{{Path: "/w/marker", Flag: os.O_RDONLY}}); err == nil && len(r2) == 1 && r2[0].File != nil {
			if fi, err := r2[0].File.Stat(); err == nil {
				markerThere = true
				_ = fi
				if c.Sync == "ok" && !c.AfterExec && markerEarly {
					r2[0].File.Close()
					return vh.Violf("C07:ran-before-approval", "the marker existed when the callback was about to return (%v); %s", cbEnd, desc)
				}
			}
			r2[0].File.Close()
		} else if err != nil {
			ce.close() // C10's subject; do not poison the following cases
			return vh.Violf("C07:env-broken-after-failure", "Open after the launch failed: %v; %s", err, desc)
		}
		ran := markerThere || len(rep.R) > 0
		mustFail := c.Sync == "fail" || c.Target != "ok"
		if mustFail && res.Status != runner.StatusRunnerError {
			return vh.Violf("C07:failure-not-reported", "%s", desc)
		}
		if mustFail && res.Error == "" {
			return vh.Violf("C07:failure-not-explained", "%s", desc)
		}
		if !mustFail && (res.Status != runner.StatusNormal || !ran) {
			return vh.Violf("C07:valid-launch-failed", "ran=%v; %s", ran, desc)
		}
		if ran && (c.Target != "ok" || (c.Sync == "fail" && !c.AfterExec)) {
			return vh.Violf("C07:target-ran-after-failure", "marker=%v report=%q; %s", markerThere, rep.Raw, desc)
		}
		if c.Sync != "none" && c.Target == "ok" && !cbRan {
			return vh.Violf("C07:callback-skipped", "%s", desc)
		}
		if l := liveTagged(tag); len(l) > 0 {
			killTagged(tag)
			return vh.Violf("C07:survivor", "tagged process alive after Execve returned: %v; %s", l, desc)
		}
		rec.Case(c, mustFail, "container", "sync="+c.Sync, "target="+c.Target)
		if mustFail && rec.WantSample() {
			rec.Sample(c)
		}
		return nil
	})
}

//go:build verif

package checks

// C17, late-cancel part: "no run receives another's signals". A run that has returned is over: cancelling its context
// later must not reach anything - in particular not a process of another run that has meanwhile been given the pid the
// finished run's program had. Pid recycling is made frequent by running the whole scenario in a helper process that is
// the init of a private pid namespace with kernel.pid_max = 400 (per-namespace since Linux 6.14; where that cannot be
// set the case is counted, not judged):
//   phase A: N runs (namespace and ptrace runner) that finish, each under a context of its own that stays alive;
//   phase B: K long-running victims (sleep, then exit 40+k) are started;
//   then all contexts of phase A are cancelled; every victim must still end with its own exit code.

import (
	"bytes"
	"context"
	"encoding/json"
	"fmt"
	"os"
	"os/exec"
	"strings"
	"sync"
	"syscall"
	"testing"
	"time"

	"github.com/criyle/go-sandbox/pkg/seccomp/libseccomp"
	"github.com/criyle/go-sandbox/runner"
	"pgregory.net/rapid"

	"verif/internal/probe"
	"verif/internal/vh"
)

type c17LCase struct {
	Finished int    // runs of phase A
	Victims  int    // runs of phase B
	Mix      int    // 0 namespace runs only, 1 ptrace runs only, 2 alternating
	Victim   string // unshare | ptrace
	SleepMs  int
}

type c17LResult struct {
	Infra      string
	NoPidMax   bool
	Results    []string // per victim: "<status> exit <n> <error>"
	Collisions int      // victims whose program pid had been the program pid of a finished run
	PhaseA     map[string]int
}

func init() { roles["c17pidns"] = c17PidnsHelper }

func c17PidnsHelper() {
	var c c17LCase
	res := c17LResult{PhaseA: map[string]int{}}
	out := func() {
		b, _ := json.Marshal(res)
		os.Stdout.Write(b)
	}
	if err := json.NewDecoder(os.Stdin).Decode(&c); err != nil {
		res.Infra = "decode: " + err.Error()
		out()
		return
	}
	if os.Getpid() != 1 {
		res.Infra = fmt.Sprintf("not the init of a pid namespace (pid %d)", os.Getpid())
		out()
		return
	}
	if err := syscall.Mount("none", "/", "", syscall.MS_REC|syscall.MS_PRIVATE, ""); err != nil {
		res.Infra = "make / private: " + err.Error()
		out()
		return
	}
	if err := syscall.Mount("proc", "/proc", "proc", 0, ""); err != nil {
		res.Infra = "mount proc: " + err.Error()
		out()
		return
	}
	if err := os.WriteFile("/proc/sys/kernel/pid_max", []byte("400\n"), 0o644); err != nil {
		res.NoPidMax = true
		out()
		return
	}
	if b, _ := os.ReadFile("/proc/sys/kernel/pid_max"); strings.TrimSpace(string(b)) != "400" {
		res.NoPidMax = true
		out()
		return
	}
	allow := append([]string{"execve", "execveat"}, probeBaseAllow...)
	filter, err := buildFilter(allow, nil, libseccomp.ActionKill)
	if err != nil {
		res.Infra = "filter: " + err.Error()
		out()
		return
	}
	run := func(kind string, ctx context.Context, s *probe.Script, pid *int) (*tracedResult, error) {
		sync := func(p int) error { *pid = p; return nil }
		if kind == "ptrace" {
			return runTraced(tracedOpts{Script: s, Filter: filter, Handler: &recHandler{}, Ctx: ctx, Timeout: 30 * time.Second, SyncFunc: sync})
		}
		return runUnshare(sandboxOpts{Script: s, Ctx: ctx, Timeout: 30 * time.Second, SyncFunc: sync})
	}
	oldPids := map[int]bool{}
	// phase A
	var cancels []context.CancelFunc
	for i := 0; i < c.Finished; i++ {
		kind := []string{"unshare", "ptrace"}[map[int]int{0: 0, 1: 1, 2: i % 2}[c.Mix]]
		ctx, cancel := context.WithCancel(context.Background())
		cancels = append(cancels, cancel)
		var s probe.Script
		s.Add("exit:0")
		var pid int
		tr, err := run(kind, ctx, &s, &pid)
		oldPids[pid] = true
		if err != nil {
			res.Infra = "phase A: " + err.Error()
			out()
			return
		}
		if tr.Hung {
			res.Infra = "phase A run hung"
			out()
			return
		}
		res.PhaseA[tr.Result.Status.String()]++
		// reap what the namespace's init (this process) inherited, so that the small pid space does not fill up with zombies
		for {
			var ws syscall.WaitStatus
			if p, _ := syscall.Wait4(-1, &ws, syscall.WNOHANG, nil); p <= 0 {
				break
			}
		}
	}
	// phase B
	res.Results = make([]string, c.Victims)
	vpids := make([]int, c.Victims)
	var wg sync.WaitGroup
	for k := 0; k < c.Victims; k++ {
		wg.Add(1)
		go func(k int) {
			defer wg.Done()
			var s probe.Script
			s.Add(fmt.Sprintf("sleep:%d", c.SleepMs))
			s.Add(fmt.Sprintf("exit:%d", 40+k))
			var pid int
			tr, err := run(c.Victim, context.Background(), &s, &pid)
			vpids[k] = pid
			switch {
			case err != nil:
				res.Results[k] = "infra " + err.Error()
			case tr.Hung:
				res.Results[k] = "hung"
			default:
				res.Results[k] = fmt.Sprintf("%v exit %d %s", tr.Result.Status, tr.Result.ExitStatus, tr.Result.Error)
			}
		}(k)
	}
	time.Sleep(time.Duration(c.SleepMs/3) * time.Millisecond) // the victims are running
	for _, cancel := range cancels {
		cancel()
	}
	wg.Wait()
	for _, p := range vpids {
		if oldPids[p] {
			res.Collisions++
		}
	}
	out()
}

func c17LateCancelRun(c c17LCase, rec *vh.Recorder) error {
	in, _ := json.Marshal(c)
	self, err := os.Executable()
	if err != nil {
		return vh.Infraf("executable: %v", err)
	}
	cmd := exec.Command(self)
	cmd.Env = append(os.Environ(), "VERIF_ROLE=c17pidns")
	cmd.Stdin = bytes.NewReader(in)
	cmd.SysProcAttr = &syscall.SysProcAttr{Cloneflags: syscall.CLONE_NEWPID | syscall.CLONE_NEWNS}
	var out, errb bytes.Buffer
	cmd.Stdout, cmd.Stderr = &out, &errb
	done := make(chan error, 1)
	if err := cmd.Start(); err != nil {
		return vh.Infraf("helper: %v", err)
	}
	go func() { done <- cmd.Wait() }()
	select {
	case err = <-done:
	case <-time.After(180 * time.Second):
		cmd.Process.Kill()
		<-done
		return vh.Infraf("pid-namespace helper did not finish in 180 s; stderr %q", strTail(errb.String(), 300))
	}
	var res c17LResult
	if jerr := json.Unmarshal(out.Bytes(), &res); jerr != nil {
		return vh.Infraf("helper output %q stderr %q err %v", out.String(), strTail(errb.String(), 400), err)
	}
	if res.NoPidMax {
		rec.Class("pid_max-of-the-namespace-not-settable(not judged)", 1)
		return nil
	}
	if res.Infra != "" {
		return vh.Infraf("helper: %s", res.Infra)
	}
	for k, r := range res.Results {
		want := fmt.Sprintf("%v exit %d ", runner.StatusNonzeroExitStatus, 40+k)
		if r != want {
			return vh.Violf("C17:signal-of-a-finished-run-reached-another-run", "victim %d (%s runner, sleeps %d ms, exits %d) ended as %q after the contexts of %d runs that had finished long before were cancelled (pid space of 400: its pid had belonged to one of them); %+v", k, c.Victim, c.SleepMs, 40+k, r, c.Finished, c)
		}
	}
	rec.Case(c, res.Collisions > 0, fmt.Sprintf("finished-runs=%d", c.Finished/50*50), "victim="+c.Victim, fmt.Sprintf("victims-on-a-recycled-program-pid=%d", res.Collisions))
	rec.Evals(c.Finished + c.Victims)
	if rec.WantSample() {
		rec.Sample(c)
	}
	return nil
}

func TestC17LateCancel(t *testing.T) {
	rec := vh.NewRecorder(t, "C17", "exploration",
		"late-cancel part (in a private pid namespace with pid_max 400, so that pids are recycled within a case): 300..400 namespace/ptrace runs that finish, each under a context of its own that stays alive; then 10..30 victims (sleep 0.6..1.5 s, exit 40+k) are started and all the old contexts are cancelled; every victim must end with its own exit code; non-trivial = at least one victim's program got a pid that had been the program pid of a finished run (measured through the sync callbacks)")
	rec.Assume("whether a victim's pid equals the pid of a finished run's program is left to the kernel's allocator; it is measured per case (class victims-on-a-recycled-program-pid)")
	vh.Check(t, rec, func(rt *rapid.T) c17LCase {
		return c17LCase{Finished: rapid.SampledFrom([]int{300, 400}).Draw(rt, "finished"), Victims: rapid.IntRange(10, 30).Draw(rt, "victims"), Mix: rapid.IntRange(0, 2).Draw(rt, "mix"),
			Victim: rapid.SampledFrom([]string{"unshare", "unshare", "ptrace"}).Draw(rt, "victim"), SleepMs: rapid.SampledFrom([]int{600, 900, 1500}).Draw(rt, "sleep")}
	}, func(c c17LCase) error { return c17LateCancelRun(c, rec) })
}

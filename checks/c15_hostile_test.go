package checks

// C15 — a sandboxed program cannot make the runner itself fail: whatever pointers, lengths, numbers or task
// interleavings a traced program uses, the run ends with a verdict about the program; never Runner Error, never a
// tracer crash, never a hang while the program is alive.

import (
	"fmt"
	"os"
	"path/filepath"
	"strings"
	"testing"

	"github.com/criyle/go-sandbox/pkg/seccomp/libseccomp"
	"github.com/criyle/go-sandbox/ptracer"
	"github.com/criyle/go-sandbox/runner"
	"github.com/criyle/go-sandbox/runner/ptrace"
	"github.com/criyle/go-sandbox/runner/ptrace/filehandler"
	"pgregory.net/rapid"

	"verif/internal/probe"
	"verif/internal/vh"
)

type c15Op struct {
	Kind  string // hostile | unknown | multi | plain
	Sys   string // syscall name for hostile path calls
	Ptr   string // pointer class for the path argument
	Dirfd uint64
	Flags uint64
	Nr    int64  // for unknown
	Multi string // multi-task scenario
	N     int
}

type c15Case struct {
	Ops     []c15Op
	Handler string // record | filehandler
	BanMask uint32 // decisions of the recording handler: bit (hash%32) set => ban, else allow
	Exit    int
}

var c15PathCalls = []string{"open", "openat", "openat2", "stat", "lstat", "newfstatat", "statx", "access", "faccessat", "readlink", "readlinkat",
	"unlink", "unlinkat", "rename", "renameat", "renameat2", "linkat", "symlinkat", "mkdirat", "mknodat", "chmod", "fchmodat", "execve", "execveat"}

var c15Ptrs = []string{"!null", "!one", "!kern", "!unmapped", "!high", "!run=4095", "!run=4096", "!run=4097", "!run=8192", "!run=1", "!runz=4095", "!runz=4096", "!runz=5000",
	"pendnz", "pend", "cross", "plain", "plain-long",
	// well-formed strings naming hostile file-system shapes: the tracer resolves them itself while the tracee is stopped
	"fs-loopself", "fs-loopdir", "fs-looptwo", "fs-chain46", "fs-dotlink60", "fs-updots",
	// well-formed strings naming procfs objects (the handler has a policy of its own for them and rewrites self -> pid)
	"proc-self", "proc-1", "proc-self-updown", "proc-thread-self", "proc-self-fd", "proc-self-fd-up", "proc-self-root", "proc-self-cwd", "proc-bare", "proc-self-task-tid",
	// components that cannot even be lstat'ed: below a regular file (ENOTDIR), longer than NAME_MAX (ENAMETOOLONG), below a
	// directory without search permission is not possible for root; a NUL-free 5000-byte single component
	"fs-notdir", "fs-notdir-deep", "fs-longcomp", "fs-longcomp-mid"}

var c15Multi = []string{"thread-vs-exit", "kill-sibling", "child-dies-in-parent-trap", "vfork-storm", "many-children", "self-stop", "thread-storm", "kill-self-thread", "orphan-sleeper", "orphan-daemon", "orphan-newgroup", "kill-newborn", "kill-newborn"}

func c15GenCase(rt *rapid.T) c15Case {
	c := c15Case{Handler: rapid.SampledFrom([]string{"record", "record", "filehandler"}).Draw(rt, "handler"), BanMask: rapid.Uint32().Draw(rt, "banmask"),
		Exit: rapid.SampledFrom([]int{0, 0, 5}).Draw(rt, "exit")}
	n := rapid.IntRange(1, 10).Draw(rt, "n")
	for i := 0; i < n; i++ {
		k := rapid.IntRange(0, 19).Draw(rt, "k")
		switch {
		case k < 11:
			op := c15Op{Kind: "hostile", Sys: rapid.SampledFrom(c15PathCalls).Draw(rt, "sys"), Ptr: rapid.SampledFrom(c15Ptrs).Draw(rt, "ptr")}
			op.Dirfd = rapid.SampledFrom([]uint64{0xffffffffffffff9c, 0xffffff9c, 0xdeadbeefffffff9c, 0, 3, 0x7fffffff, 0xffffffffffffffff, 0x8000000000000003, 999999}).Draw(rt, "dirfd")
			op.Flags = rapid.OneOf(rapid.SampledFrom([]uint64{0, 1, 2, 0x40, 0x241, 0xffffffffffffffff, 0x8000000000000000, 0x200000}), rapid.Uint64()).Draw(rt, "flags")
			c.Ops = append(c.Ops, op)
		case k < 13:
			nr := rapid.OneOf(rapid.Int64Range(468, 1200), rapid.SampledFrom([]int64{-1, 0x40000000, 0x40000001, 0x40000000 + 59, 0x7fffffff, 0x3fffffff, 500, 1023, 1 << 32, 1<<32 + 39, -100}),
				// the kernel and the filter look at the low 32 bits of the number register only: a traced (or allowed) syscall
				// with garbage in the upper half still raises its trace event, and the tracer reads all 64 bits
				rapid.Custom(func(t *rapid.T) int64 {
					low := rapid.SampledFrom([]int64{2, 4, 6, 21, 59, 257, 262, 39}).Draw(t, "low")
					hi := rapid.SampledFrom([]uint64{1 << 63, 0xffffffff00000000, 1 << 32, 0xdeadbeef00000000, 0x7fffffff00000000, 0x8000000100000000}).Draw(t, "hi")
					return int64(hi | uint64(low))
				})).Draw(rt, "nr")
			c.Ops = append(c.Ops, c15Op{Kind: "unknown", Nr: nr})
		case k < 18:
			c.Ops = append(c.Ops, c15Op{Kind: "multi", Multi: rapid.SampledFrom(c15Multi).Draw(rt, "multi"), N: rapid.IntRange(2, 30).Draw(rt, "mn"),
				Sys: rapid.SampledFrom([]string{"stat", "openat", "access"}).Draw(rt, "msys")})
		default:
			c.Ops = append(c.Ops, c15Op{Kind: "plain", Sys: "stat"})
		}
	}
	return c
}

func c15Run(c c15Case, root string, rec *vh.Recorder) error {
	var s probe.Script
	existing := filepath.Join(root, "file")
	leavesGroup := false // a descendant left the process group: the tracer's clean-up does not reach it (not this property's subject)
	killType := -1       // index of first main-line op that must end the run as Disallowed Syscall
	eitherKill := false  // an op after which both Disallowed Syscall and the program's own ending are acceptable
	reached := []int{}
	longPath := root + "/" + strings.Repeat("d/", 1500) + "x" // ~3000+ bytes, valid length
	tracedCall := func(sys string, parg string, dirfd uint64, flags uint64) int {
		nr := sysNr[sys]
		switch sys {
		case "open":
			return s.Sys(nr, parg, flags, 0o644)
		case "openat":
			return s.Sys(nr, dirfd, parg, flags, 0o644)
		case "openat2":
			how := []string{"!how=0,0,0", "!howpend=0", "!hownone", "!null", "!kern", fmt.Sprintf("!how=%d,0,0", flags&0xffffffff)}[flags%6]
			// the size argument is a 64-bit register like the others
			size := []uint64{24, 24, 24, 0, 8, 23, 25, 0x1000, 0x100000018, 0x7fffffffffffffff, 0x8000000000000018, 0xffffffffffffffff, 0xffffffff00000018, 1 << 63}[(flags>>8)%14]
			return s.Sys(nr, dirfd, parg, how, size)
		case "stat", "lstat":
			return s.Sys(nr, parg, "!buf")
		case "newfstatat":
			return s.Sys(nr, dirfd, parg, "!buf", flags)
		case "statx":
			return s.Sys(nr, dirfd, parg, flags, 0x7ff, "!buf")
		case "access":
			return s.Sys(nr, parg, flags)
		case "faccessat":
			return s.Sys(nr, dirfd, parg, flags)
		case "readlink":
			return s.Sys(nr, parg, "!buf", 100)
		case "readlinkat":
			return s.Sys(nr, dirfd, parg, "!buf", 100)
		case "unlink", "chmod":
			return s.Sys(nr, parg, flags)
		case "unlinkat", "mkdirat", "fchmodat":
			return s.Sys(nr, dirfd, parg, flags)
		case "mknodat":
			return s.Sys(nr, dirfd, parg, 0o100644, 0)
		case "rename":
			return s.Sys(nr, parg, parg)
		case "renameat", "renameat2", "linkat":
			return s.Sys(nr, dirfd, parg, dirfd, parg, flags)
		case "symlinkat":
			return s.Sys(nr, parg, dirfd, parg)
		case "execve":
			return s.Sys(nr, parg, "!null", "!null")
		case "execveat":
			return s.Sys(nr, dirfd, parg, "!null", "!null", flags)
		}
		return s.Sys(nr, parg)
	}
	ptrArg := func(ptr string) string {
		switch ptr {
		case "pendnz":
			return fmt.Sprintf("!pendnz=%d", s.StrIdx(existing))
		case "pend":
			return fmt.Sprintf("!pend=%d", s.StrIdx(existing))
		case "cross":
			return fmt.Sprintf("!cross=%d", s.StrIdx(existing))
		case "plain":
			return s.Str(existing)
		case "plain-long":
			return s.Str(longPath)
		case "fs-loopself":
			return s.Str(root + "/loopself/x")
		case "fs-loopdir":
			return s.Str(root + "/loopdir")
		case "fs-looptwo":
			return s.Str("lx/../file")
		case "fs-chain46":
			return s.Str(root + "/c0")
		case "fs-dotlink60":
			return s.Str(root + "/" + strings.Repeat("dd/", 60) + "file")
		case "fs-updots":
			return s.Str(strings.Repeat("../", 1300) + strings.TrimPrefix(root, "/") + "/file")
		case "fs-notdir":
			return s.Str(root + "/file/x")
		case "fs-notdir-deep":
			return s.Str(root + "/file/x/../y/z")
		case "fs-longcomp":
			return s.Str(root + "/" + strings.Repeat("n", 300))
		case "fs-longcomp-mid":
			return s.Str(root + "/" + strings.Repeat("n", 256) + "/../file")
		case "proc-self":
			return s.Str("/proc/self")
		case "proc-1":
			return s.Str("/proc/1")
		case "proc-self-updown":
			return s.Str("/proc/self/task/../../self/task/..")
		case "proc-thread-self":
			return s.Str("/proc/thread-self")
		case "proc-self-fd":
			return s.Str("/proc/self/fd")
		case "proc-self-fd-up":
			return s.Str("/proc/self/fd/..")
		case "proc-self-root":
			return s.Str("/proc/self/root")
		case "proc-self-cwd":
			return s.Str("/proc/self/cwd/.")
		case "proc-bare":
			return s.Str("/proc/")
		case "proc-self-task-tid":
			return s.Str("/proc/self/task/1/..")
		}
		return ptr
	}
	var classes []string
	hostileSeen := false
	for _, op := range c.Ops {
		switch op.Kind {
		case "hostile":
			sys := op.Sys
			if strings.HasPrefix(op.Ptr, "proc-") {
				// these names resolve to directories of the machine itself (/ through /proc/self/root, /proc): the ptrace
				// runner does not change the root, the program is root there, and an allowed chmod with a generated mode
				// succeeds - it changed the mode of / and of /proc for every other process. All other calls of the list fail on
				// these directories; chmod is replaced by the access call of the same shape.
				switch sys {
				case "chmod":
					sys = "access"
				case "fchmodat":
					sys = "faccessat"
				}
			}
			k := tracedCall(sys, ptrArg(op.Ptr), op.Dirfd, op.Flags)
			reached = append(reached, k)
			classes = append(classes, "ptr="+op.Ptr)
			if op.Ptr != "plain" {
				hostileSeen = true
			}
		case "plain":
			reached = append(reached, tracedCall("stat", s.Str(existing), 0, 0))
		case "unknown":
			k := s.Sys(int(op.Nr), -1, -1, -1)
			nr32 := uint32(op.Nr)
			if uint64(op.Nr)>>32 != 0 && nr32 < 468 {
				// a known syscall with garbage in the upper register half: whether the tracer judges the full value (unknown
				// number: kill) or the number the kernel runs is not prescribed; either ending is a verdict about the program
				eitherKill = true
				classes = append(classes, "known-syscall-number-with-upper-garbage")
			} else {
				reached = append(reached, k)
				if nr32 < 0x40000000 && nr32 >= 468 && killType < 0 && !eitherKill {
					killType = k
				}
				classes = append(classes, "unknown-syscall-number")
			}
			hostileSeen = true
		case "multi":
			classes = append(classes, "multi="+op.Multi)
			hostileSeen = true
			path := s.Str(existing)
			call := func() { tracedCall(op.Sys, path, 0xffffffffffffff9c, 0) }
			switch op.Multi {
			case "thread-vs-exit":
				s.Add("thread{")
				for i := 0; i < op.N; i++ {
					call()
				}
				s.Add("}")
				if op.N%2 == 0 {
					s.Add("sleep:1")
				}
				s.Add(fmt.Sprintf("exit:%d", c.Exit))
			case "thread-storm":
				for i := 0; i < op.N%6+2; i++ {
					s.Add("thread{")
					call()
					call()
					s.Add("}")
				}
				call()
				s.Add("sleep:5")
			case "kill-self-thread":
				s.Add("thread{")
				call()
				s.Sys(sysNr["kill"], probe.Ref(0), 9) // $0 = getpid() of main, see below
				s.Add("}")
				for i := 0; i < op.N; i++ {
					call()
				}
			case "kill-sibling":
				a := s.Add("fork{")
				for i := 0; i < op.N; i++ {
					call()
				}
				s.Add("}")
				s.Add("fork{")
				if op.N%3 == 0 {
					s.Add("sleep:1")
				}
				s.Sys(sysNr["kill"], probe.Ref(a), 9)
				s.Add("}")
				s.Add("waitn:2") // counted waits: an earlier scenario may have left a sleeper that never exits
			case "child-dies-in-parent-trap":
				s.Add("fork{")
				call()
				s.Add("exit:0")
				s.Add("}")
				for i := 0; i < op.N; i++ {
					call()
				}
				s.Add("waitn:1")
			case "vfork-storm":
				for i := 0; i < op.N%12+1; i++ {
					s.Add("vfork{")
					call()
					s.Add("}")
				}
				s.Add(fmt.Sprintf("waitn:%d", op.N%12+1))
			case "many-children":
				for i := 0; i < 20+op.N; i++ {
					s.Add("fork{")
					if i%3 == 0 {
						call()
					}
					s.Add("}")
				}
				s.Add(fmt.Sprintf("waitn:%d", 20+op.N))
			case "kill-newborn":
				// children SIGKILLed right after fork returns: they die around their very first (attach) stop
				rounds := 100 + op.N*10
				for i := 0; i < rounds; i++ {
					a := s.Add("fork{")
					s.Add("sleep:600000")
					s.Add("}")
					s.Sys(sysNr["kill"], probe.Ref(a), 9)
				}
				s.Add(fmt.Sprintf("waitn:%d", rounds))
			case "orphan-sleeper":
				// a descendant that outlives main: the run must still end when main ends
				s.Add("fork{")
				if op.N%2 == 0 {
					s.Add("sigign")
				}
				call()
				s.Add("sleep:600000")
				s.Add("}")
				if op.N%3 == 0 {
					call()
				}
			case "orphan-newgroup":
				// a child that leaves the program's process group (setpgid) and outlives the main process: whatever becomes
				// of it, the run itself has to end when the main process ends
				s.Add("fork{")
				s.Sys(sysNr["setpgid"], 0, 0)
				if op.N%2 == 0 {
					s.Add("sigign")
				}
				call()
				s.Add("sleep:600000")
				s.Add("}")
				s.Add("sleep:5")
				leavesGroup = true
			case "orphan-daemon":
				s.Add("fork{")
				s.Add("fork{")
				s.Add("sigign")
				s.Add("sleep:600000")
				s.Add("}")
				s.Add("}")
				s.Add("waitn:1")
			case "self-stop":
				s.Add(fmt.Sprintf("raise:%d", []int{19, 20, 18, 21, 22}[op.N%5]))
				call()
			}
		}
	}
	s.Add(fmt.Sprintf("exit:%d", c.Exit))
	// op 0 must be getpid for the kill-self-thread scenario: prepend by rebuilding indices is awkward, so the script
	// always starts with it
	s.Ops = append([]string{fmt.Sprintf("sys:%d", sysNr["getpid"])}, shiftRefs(s.Ops)...)
	if killType >= 0 {
		killType++
	}
	for i := range reached {
		reached[i]++
	}

	_ = os.WriteFile(existing, []byte("x"), 0o644)
	if _, err := os.Lstat(root + "/loopself"); err != nil {
		os.Mkdir(root+"/d", 0o755)
		os.Symlink("loopself", root+"/loopself")
		os.Symlink("d/../loopdir", root+"/loopdir") // a cycle with an ordinary component in every round
		os.Symlink("d/ly", root+"/lx")
		os.Symlink("../lx", root+"/d/ly")
		os.Symlink(".", root+"/dd")
		for i := 0; i < 46; i++ {
			t := fmt.Sprintf("c%d", i+1)
			if i == 45 {
				t = "file"
			}
			os.Symlink(t, fmt.Sprintf("%s/c%d", root, i))
		}
	}
	allow := append([]string{"fork", "vfork", "clone", "kill", "rt_sigprocmask", "setpgid"}, probeBaseAllow...)
	traced := append([]string{}, c02Calls...)
	filter, err := buildFilter(allow, traced, libseccomp.ActionTrace)
	if err != nil {
		return vh.Infraf("filter: %v", err)
	}
	var h ptrace.Handler
	rh := &recHandler{}
	rh.Decide = func(r hRecord) ptracer.TraceAction {
		if r.Class == "syscall" {
			return ptracer.TraceBan
		}
		hsh := uint32(len(r.Arg)*31 + len(r.Class))
		if c.BanMask&(1<<(hsh%32)) != 0 {
			return ptracer.TraceBan
		}
		return ptracer.TraceAllow
	}
	h = rh
	handlerKills := false
	if c.Handler == "filehandler" {
		fs := filehandler.NewFileSets()
		fs.Readable.Add(root + "/")
		fs.Writable.Add(root + "/w/")
		fs.SoftBan.Add("/proc/")
		h = &filehandler.Handler{FileSet: fs, SyscallCounter: filehandler.NewSyscallCounter()}
		handlerKills = true
	}
	tr, err := runTraced(tracedOpts{Script: &s, Filter: filter, Handler: h, WorkDir: root, Timeout: 15 * 1e9})
	if err != nil {
		return err
	}
	if tr.Hung {
		states := taggedPids(tr.Tag)
		killTagged(tr.Tag)
		allStopped := false
		for _, op := range c.Ops {
			if op.Kind == "multi" && op.Multi == "self-stop" {
				allStopped = len(states) > 0
			}
		}
		for _, st := range states {
			if st != "T" && st != "t" {
				allStopped = false
			}
		}
		if allStopped {
			rec.Class("hung-with-self-stopped-program(not judged)", 1)
			return nil
		}
		return vh.Violf("C15:no-progress", "run still blocked after 15s; tagged tasks and states: %v", states)
	}
	res := tr.Result
	if res.Status == runner.StatusRunnerError {
		key := "C15:runner-error"
		switch {
		case strings.Contains(res.Error, "slice bounds out of range"):
			key = "C15:runner-error/unterminated-path-panic"
		case strings.Contains(res.Error, "no such process"):
			key = "C15:runner-error/esrch"
		}
		return vh.Violf(key, "Runner Error %q; ops=%+v", res.Error, c.Ops)
	}
	if strings.Contains(res.Error, "runtime error") || strings.Contains(res.Error, "panic") {
		return vh.Violf("C15:tracer-panic", "status %v error %q", res.Status, res.Error)
	}
	switch res.Status {
	case runner.StatusNormal, runner.StatusNonzeroExitStatus, runner.StatusSignalled, runner.StatusTimeLimitExceeded, runner.StatusMemoryLimitExceeded,
		runner.StatusOutputLimitExceeded, runner.StatusDisallowedSyscall:
	default:
		return vh.Violf("C15:not-a-verdict", "status %d (%v) error %q", int(res.Status), res.Status, res.Error)
	}
	// consistency with the program's own ending, where that is determined: single-task scripts
	multi := false
	for _, op := range c.Ops {
		if op.Kind == "multi" {
			multi = true
		}
	}
	if !multi && !handlerKills && eitherKill && res.Status == runner.StatusDisallowedSyscall {
		// accepted, see above
	} else if !multi && !handlerKills {
		if killType >= 0 {
			if res.Status != runner.StatusDisallowedSyscall {
				return vh.Violf("C15:verdict", "unknown syscall number on the main path but status %v exit %d err %q", res.Status, res.ExitStatus, res.Error)
			}
		} else {
			want := runner.StatusNormal
			if c.Exit != 0 {
				want = runner.StatusNonzeroExitStatus
			}
			if res.Status != want || res.ExitStatus != c.Exit {
				key := "C15:verdict"
				if strings.Contains(res.Error, "no such process") {
					key = "C15:verdict/esrch"
				}
				return vh.Violf(key, "single-task program exits %d by itself but status %v exit %d err %q; ops=%+v", c.Exit, res.Status, res.ExitStatus, res.Error, c.Ops)
			}
			// every op ran to completion
			for _, k := range reached {
				if _, ok := tr.Report.R[k]; !ok {
					return vh.Violf("C15:op-lost", "op #%d never returned although the run ended %v", k, res.Status)
				}
			}
		}
	}
	if res.Status == runner.StatusDisallowedSyscall && strings.Contains(res.Error, "no such process") && !handlerKills && killType < 0 {
		// the tracer lost a race with a dying task and blamed the program for a policy violation it did not commit
		if !vh.Known("C15", "C15:esrch-reported-as-disallowed") {
			return vh.Violf("C15:esrch-reported-as-disallowed", "Disallowed Syscall with error %q although no decision was kill; ops=%+v", res.Error, c.Ops)
		}
		rec.Excluded("C15:esrch-reported-as-disallowed")
	}
	if l := liveTagged(tr.Tag); len(l) > 0 {
		killTagged(tr.Tag)
		if !leavesGroup {
			return vh.Violf("C15:survivor", "tagged processes alive after the run: %v", l)
		}
		rec.Class("descendant-outside-the-process-group-survives(not judged here)", 1)
	}
	classes = append(classes, "handler="+c.Handler, "status="+res.Status.String())
	rec.Case(c, hostileSeen, dedup(classes)...)
	if hostileSeen && rec.WantSample() {
		rec.Sample(c)
	}
	return nil
}

// shiftRefs rewrites $K references after an op was inserted at position 0.
func shiftRefs(ops []string) []string {
	out := make([]string, len(ops))
	for i, op := range ops {
		fs := strings.Split(op, ":")
		for j, f := range fs {
			if strings.HasPrefix(f, "$") {
				var k int
				rest := ""
				body := f[1:]
				if p := strings.Index(body, "+"); p >= 0 {
					rest = body[p:]
					body = body[:p]
				}
				fmt.Sscanf(body, "%d", &k)
				fs[j] = fmt.Sprintf("$%d%s", k+1, rest)
			}
		}
		out[i] = strings.Join(fs, ":")
	}
	return out
}

func TestC15Hostile(t *testing.T) {
	rec := vh.NewRecorder(t, "C15", "exploration",
		"case = script of 1..10 ops: traced path syscalls (24 kinds) whose pathname pointer is NULL/1/kernel/unmapped/near-2^64, an unterminated run of 1/4095/4096/4097/8192 bytes up to a PROT_NONE page, a 4095/4096/5000-byte terminated string, a string ending at / crossing a page end, a 3000-byte valid path; 64-bit garbage in dirfd and flag registers; openat2 with unreadable open_how; unknown, negative, x32-tagged syscall numbers; multi-task scenarios (thread traps vs exit_group, child SIGKILLing a sibling in a trap, child dying during the parent's trap, vfork storm, 20..50 short-lived children, thread storm, self SIGSTOP/SIGTSTP/SIGCONT/SIGTTIN/SIGTTOU, thread SIGKILLing the process); run under the real ptrace.Runner with a recording handler (random allow/ban) or the real filehandler; "+
			"oracle = Result is one of the seven program verdicts (never Runner Error / panic text), consistent with the program's own ending for single-task scripts, the run returns within 15 s; non-trivial = at least one hostile pointer, unknown number or multi-task scenario")
	rec.Assume("a program that stops itself (SIGSTOP et al.) and is left stopped is not judged as a progress violation")
	root, err := vh.ScratchDir("c15")
	if err != nil {
		t.Fatalf("INFRA: %v", err)
	}
	defer os.RemoveAll(root)
	root, _ = filepath.EvalSymlinks(root)
	vh.Check(t, rec, c15GenCase, func(c c15Case) error { return c15Run(c, root, rec) })
}

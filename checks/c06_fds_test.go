package checks

// C06 — the program's descriptor table is exactly the caller's list, nothing more; launching does not modify the
// caller's configuration. The forkexec part runs in a helper process (role "fdcase") whose own descriptor table is
// shaped by the case, so that the internal socketpair, the exec descriptor and scratch duplicates land below, inside
// and above the listed numbers.

import (
	"bytes"
	"context"
	"encoding/json"
	"fmt"
	"os"
	"os/exec"
	"path/filepath"
	"sort"
	"strings"
	"syscall"
	"testing"
	"time"

	"github.com/criyle/go-sandbox/container"
	"github.com/criyle/go-sandbox/pkg/forkexec"
	"github.com/criyle/go-sandbox/pkg/mount"
	"github.com/criyle/go-sandbox/runner"
	"golang.org/x/sys/unix"
	"pgregory.net/rapid"

	"verif/internal/probe"
	"verif/internal/vh"
)

type c06Case struct {
	Open     map[string]int // descriptor number (as string, JSON) -> marker id; marker -1 = the report pipe's write end, -2 = the probe binary
	Files    []int          // listed descriptor numbers; -1 = "close this slot"
	ExecFile int            // 0 = exec by path
	Sync     bool           // a SyncFunc is given (no vfork sharing)
	NewUser  bool
	Dir      string `json:"dir,omitempty"`
	Probe    string `json:"probe,omitempty"`
}

type c06Ident struct{ Dev, Ino uint64 }

type c06Result struct {
	Infra   string
	Table   map[int]c06Ident // the helper's own table after shaping
	Err     [2]string
	Report  [2]string
	Changed [2]string // description of how the Runner value changed across Start ("" = unchanged)
	Low     []int     // the two lowest free numbers at the time of the first Start (where the socketpair lands)
}

func init() { roles["fdcase"] = c06Helper }

func c06Helper() {
	var c c06Case
	res := c06Result{Table: map[int]c06Ident{}}
	out := func() {
		b, _ := json.Marshal(res)
		os.Stdout.Write(b)
	}
	dec := json.NewDecoder(os.Stdin)
	if err := dec.Decode(&c); err != nil {
		res.Infra = "decode: " + err.Error()
		out()
		return
	}
	// shape the table: open markers high, dup3 onto the chosen numbers, close everything else >= 3
	var rp [2]int
	if err := unix.Pipe2(rp[:], unix.O_CLOEXEC); err != nil {
		res.Infra = "pipe: " + err.Error()
		out()
		return
	}
	hi := 200
	move := func(fd int) int {
		hi++
		if err := unix.Dup3(fd, hi, unix.O_CLOEXEC); err != nil {
			panic(err)
		}
		unix.Close(fd)
		return hi
	}
	rpR, rpW := move(rp[0]), move(rp[1])
	srcs := map[int]int{} // marker id -> high fd
	want := map[int]int{}
	for k, m := range c.Open {
		var n int
		fmt.Sscanf(k, "%d", &n)
		want[n] = m
		if _, ok := srcs[m]; ok {
			continue
		}
		switch m {
		case -1:
			srcs[m] = rpW
		case -2:
			fd, err := unix.Open(c.Probe, unix.O_RDONLY|unix.O_CLOEXEC, 0)
			if err != nil {
				res.Infra = "open probe: " + err.Error()
				out()
				return
			}
			srcs[m] = move(fd)
		default:
			fd, err := unix.Open(filepath.Join(c.Dir, fmt.Sprintf("marker%d", m)), unix.O_RDWR|unix.O_CREAT|unix.O_CLOEXEC, 0o644)
			if err != nil {
				res.Infra = "open marker: " + err.Error()
				out()
				return
			}
			unix.Pwrite(fd, []byte("0123456789"), 0)
			unix.Seek(fd, int64(m%7), 0)
			srcs[m] = move(fd)
		}
	}
	// close every descriptor in 3..199 (stale runtime descriptors would be close-on-exec anyway)
	for fd := 3; fd < 200; fd++ {
		unix.Close(fd)
	}
	var nums []int
	for n := range want {
		nums = append(nums, n)
	}
	sort.Ints(nums)
	for _, n := range nums {
		if n < 3 {
			continue // 0,1,2 are the helper's stdio
		}
		if err := unix.Dup3(srcs[want[n]], n, unix.O_CLOEXEC); err != nil {
			res.Infra = fmt.Sprintf("dup3 -> %d: %v", n, err)
			out()
			return
		}
	}
	for m, fd := range srcs {
		if m != -1 || true {
			unix.Close(fd)
		}
	}
	// the helper's own stdio is inherited without close-on-exec; mark it like the container init does, so that every
	// descriptor the helper holds is close-on-exec and anything unlisted that shows up in the program is forkexec's doing
	for fd := 0; fd < 3; fd++ {
		unix.CloseOnExec(fd)
	}
	// identity table
	for fd := 0; fd < 200; fd++ {
		var st unix.Stat_t
		if unix.Fstat(fd, &st) == nil {
			res.Table[fd] = c06Ident{st.Dev, st.Ino}
		}
	}
	for fd := 3; len(res.Low) < 2 && fd < 200; fd++ {
		if _, ok := res.Table[fd]; !ok {
			res.Low = append(res.Low, fd)
		}
	}
	// where does the probe print? the first listed slot that holds the report pipe
	rfd := -1
	for i, f := range c.Files {
		if f >= 0 && want[f] == -1 {
			rfd = i
			break
		}
	}
	var s probe.Script
	s.Add("report:fds")
	s.Add("exit:0")
	argv := s.Argv("vptag-c06", rfd)
	argv[0] = c.Probe
	files := make([]uintptr, len(c.Files))
	for i, f := range c.Files {
		if f < 0 {
			files[i] = ^uintptr(0)
		} else {
			files[i] = uintptr(f)
		}
	}
	r := &forkexec.Runner{Args: argv, Env: []string{"A=1"}, Files: files, ExecFile: uintptr(c.ExecFile)}
	if c.Sync {
		r.SyncFunc = func(int) error { return nil }
	}
	if c.NewUser {
		r.CloneFlags = unix.CLONE_NEWUSER
	}
	snapshot := func() string {
		return fmt.Sprintf("Args=%q Env=%q ExecFile=%d Files=%v WorkDir=%q CloneFlags=%#x CgroupFd=%d", r.Args, r.Env, r.ExecFile, r.Files, r.WorkDir, r.CloneFlags, r.CgroupFd)
	}
	unix.SetNonblock(rpR, true)
	for k := 0; k < 2; k++ {
		before := snapshot()
		pid, err := r.Start()
		after := snapshot()
		if before != after {
			res.Changed[k] = before + " => " + after
		}
		if err != nil {
			res.Err[k] = err.Error()
			continue
		}
		var ws unix.WaitStatus
		for {
			_, e := unix.Wait4(pid, &ws, 0, nil)
			if e != unix.EINTR {
				break
			}
		}
		var buf bytes.Buffer
		tmp := make([]byte, 65536)
		for {
			n, e := unix.Read(rpR, tmp)
			if n > 0 {
				buf.Write(tmp[:n])
			}
			if e != nil || n <= 0 {
				break
			}
		}
		res.Report[k] = buf.String()
		if !ws.Exited() || ws.ExitStatus() != 0 {
			res.Err[k] = fmt.Sprintf("probe ended with wait status %#x", uint32(ws))
		}
	}
	out()
}

func c06GenCase(rt *rapid.T) c06Case {
	c := c06Case{Open: map[string]int{}}
	// table: 3..12 descriptors on numbers 3..40, biased low so that holes near the bottom vary
	n := rapid.IntRange(2, 12).Draw(rt, "nopen")
	numGen := rapid.OneOf(rapid.IntRange(3, 12), rapid.IntRange(3, 20), rapid.IntRange(3, 40))
	used := map[int]bool{}
	var nums []int
	for i := 0; i < n; i++ {
		x := numGen.Draw(rt, "num")
		if used[x] {
			continue
		}
		used[x] = true
		nums = append(nums, x)
		c.Open[fmt.Sprint(x)] = rapid.IntRange(0, 5).Draw(rt, "marker")
	}
	// report pipe somewhere
	rp := numGen.Draw(rt, "rp")
	if !used[rp] {
		nums = append(nums, rp)
		used[rp] = true
	}
	c.Open[fmt.Sprint(rp)] = -1
	// exec descriptor
	if rapid.IntRange(0, 3).Draw(rt, "byfd") != 0 {
		e := numGen.Draw(rt, "execfd")
		for used[e] {
			e++
		}
		used[e] = true
		c.Open[fmt.Sprint(e)] = -2
		c.ExecFile = e
	}
	sort.Ints(nums)
	// list
	ln := rapid.IntRange(1, 12).Draw(rt, "nfiles")
	pool := append([]int{0, 1, 2}, nums...)
	for i := 0; i < ln; i++ {
		k := rapid.IntRange(0, 9).Draw(rt, "fk")
		switch {
		case k == 0:
			c.Files = append(c.Files, -1)
		case k == 1 && len(c.Files) > 0:
			c.Files = append(c.Files, c.Files[rapid.IntRange(0, len(c.Files)-1).Draw(rt, "rep")]) // repeat
		default:
			c.Files = append(c.Files, rapid.SampledFrom(pool).Draw(rt, "f"))
		}
	}
	// the report pipe must be listed at least once
	c.Files[rapid.IntRange(0, len(c.Files)-1).Draw(rt, "rpos")] = rp
	c.Sync = rapid.Bool().Draw(rt, "sync")
	c.NewUser = rapid.IntRange(0, 4).Draw(rt, "newuser") == 0
	if rapid.IntRange(0, 3).Draw(rt, "tight") == 0 {
		// "tight" shape: the internal descriptors land right at the first scratch number. Everything below
		// N = max(len(Files), highest listed + 1) is open except h holes (the socketpair takes the lowest free numbers),
		// the exec descriptor sits at N+delta, and at least one listed descriptor has to be parked (number < slot).
		if len(c.Files) >= 2 {
			c.Files[len(c.Files)-1] = rapid.SampledFrom([]int{0, 1, 2, c.Files[0]}).Draw(rt, "parked")
			if c.Files[len(c.Files)-1] < 0 {
				c.Files[len(c.Files)-1] = 0
			}
		}
		listed := map[int]bool{}
		maxListed := 0
		hasRP := false
		for _, f := range c.Files {
			if f >= 0 {
				listed[f] = true
				if f > maxListed {
					maxListed = f
				}
				if f == rp {
					hasRP = true
				}
			}
		}
		if !hasRP {
			c.Files[0] = rp
			listed[rp] = true
			if rp > maxListed {
				maxListed = rp
			}
		}
		N := len(c.Files)
		if maxListed+1 > N {
			N = maxListed + 1
		}
		for k := range c.Open {
			var x int
			fmt.Sscanf(k, "%d", &x)
			if c.Open[k] == -2 || (x >= N && !listed[x]) {
				delete(c.Open, k)
			}
		}
		holes := rapid.IntRange(0, 2).Draw(rt, "holes")
		var free []int
		for x := 3; x < N; x++ {
			if _, ok := c.Open[fmt.Sprint(x)]; !ok {
				free = append(free, x)
			}
		}
		if len(free) > 1 {
			free = rapid.Permutation(free).Draw(rt, "holeorder")
		}
		for i, x := range free {
			if i >= holes {
				c.Open[fmt.Sprint(x)] = rapid.IntRange(0, 5).Draw(rt, "fill")
			}
		}
		c.ExecFile = N + rapid.IntRange(0, 3).Draw(rt, "execdelta")
		c.Open[fmt.Sprint(c.ExecFile)] = -2
	}
	return c
}

func c06ParseFds(report string) (map[int]probe.FD, bool) {
	rep := probe.Parse([]byte(report))
	m := map[int]probe.FD{}
	for _, f := range rep.FDs {
		m[f.N] = f
	}
	return m, rep.FDsDone
}

func c06Run(c c06Case, dir string, rec *vh.Recorder) error {
	c.Dir, c.Probe = dir, probe.Path()
	in, _ := json.Marshal(c)
	self, err := os.Executable()
	if err != nil {
		return vh.Infraf("executable: %v", err)
	}
	cmd := exec.Command(self)
	cmd.Env = append(os.Environ(), "VERIF_ROLE=fdcase")
	cmd.Stdin = bytes.NewReader(in)
	var out, errb bytes.Buffer
	cmd.Stdout, cmd.Stderr = &out, &errb
	done := make(chan error, 1)
	if err := cmd.Start(); err != nil {
		return vh.Infraf("helper: %v", err)
	}
	go func() { done <- cmd.Wait() }()
	select {
	case err = <-done:
	case <-time.After(30 * time.Second):
		cmd.Process.Kill()
		<-done
		return vh.Violf("C06:hung", "helper did not finish in 30s: %+v", c)
	}
	var res c06Result
	if jerr := json.Unmarshal(out.Bytes(), &res); jerr != nil {
		return vh.Infraf("helper output %q stderr %q err %v", out.String(), errb.String(), err)
	}
	if res.Infra != "" {
		return vh.Infraf("helper: %s", res.Infra)
	}
	// classification
	inList := map[int]bool{}
	maxListed := 0
	nt := false
	for i, f := range c.Files {
		if f >= 0 {
			if inList[f] || f < i {
				nt = true
			}
			inList[f] = true
			if f > maxListed {
				maxListed = f
			}
		}
	}
	var classes []string
	for _, l := range res.Low {
		switch {
		case l < len(c.Files):
			classes = append(classes, "socketpair-inside-0..n")
			nt = true
		case l <= maxListed:
			classes = append(classes, "socketpair-among-listed")
			nt = true
		default:
			classes = append(classes, "socketpair-above")
		}
	}
	if c.ExecFile > 0 {
		switch {
		case c.ExecFile < len(c.Files):
			classes = append(classes, "execfd-inside-0..n")
			nt = true
		case c.ExecFile <= maxListed:
			classes = append(classes, "execfd-among-listed")
		case c.ExecFile == maxListed+1:
			classes = append(classes, "execfd=max+1")
			nt = true
		default:
			classes = append(classes, "execfd-above")
		}
	} else {
		classes = append(classes, "exec-by-path")
	}
	if c.ExecFile > 0 && len(res.Low) == 2 {
		n0 := len(c.Files)
		if maxListed+1 > n0 {
			n0 = maxListed + 1
		}
		parked := false
		for i, f := range c.Files {
			if f >= 0 && f < i {
				parked = true
			}
		}
		if parked && res.Low[1] >= n0 && c.ExecFile >= n0 && c.ExecFile-res.Low[1] >= -1 && c.ExecFile-res.Low[1] <= 1 {
			classes = append(classes, fmt.Sprintf("unmoved sync fd and exec fd adjacent at the scratch area (exec fd = sync fd %+d, sync fd = first scratch number %+d)", c.ExecFile-res.Low[1], res.Low[1]-n0))
			nt = true
		}
	}
	vforkShare := !c.Sync && !c.NewUser
	if vforkShare {
		classes = append(classes, "vfork-sharing")
	}

	for k := 0; k < 2; k++ {
		if res.Changed[k] != "" {
			return vh.Violf("C06:caller-config-modified", "start #%d changed the caller's Runner: %s; case %+v", k+1, res.Changed[k], c)
		}
		if res.Err[k] != "" {
			return vh.Violf("C06:start-failed", "start #%d of a valid configuration failed: %s; low=%v case %+v", k+1, res.Err[k], res.Low, c)
		}
		fds, complete := c06ParseFds(res.Report[k])
		if !complete {
			return vh.Violf("C06:no-report", "start #%d: incomplete report %q; case %+v", k+1, res.Report[k], c)
		}
		for i, f := range c.Files {
			got, open := fds[i]
			if f < 0 {
				if open {
					// a slot marked "close" must be closed unless ... it is simply closed
					return vh.Violf("C06:slot-not-closed", "start #%d: slot %d is marked close but is open (%d:%d); case %+v", k+1, i, got.Dev, got.Ino, c)
				}
				continue
			}
			want := res.Table[f]
			if !open {
				return vh.Violf("C06:slot-missing", "start #%d: slot %d (caller fd %d) is not open in the program; low=%v case %+v", k+1, i, f, res.Low, c)
			}
			if got.Dev != want.Dev || got.Ino != want.Ino {
				return vh.Violf("C06:wrong-file", "start #%d: slot %d is %d:%d, caller fd %d is %d:%d; low=%v case %+v", k+1, i, got.Dev, got.Ino, f, want.Dev, want.Ino, res.Low, c)
			}
			if got.FdFlags&1 != 0 {
				return vh.Violf("C06:cloexec-set", "start #%d: slot %d still has FD_CLOEXEC; case %+v", k+1, i, c)
			}
		}
		for n, f := range fds {
			if n >= len(c.Files) {
				return vh.Violf("C06:extra-descriptor", "start #%d: descriptor %d (%d:%d mode %o) is open in the program but not listed; low=%v case %+v", k+1, n, f.Dev, f.Ino, f.Mode, res.Low, c)
			}
		}
	}
	if res.Report[0] != res.Report[1] {
		return vh.Violf("C06:second-start-differs", "reports differ:\n%s---\n%s; case %+v", res.Report[0], res.Report[1], c)
	}
	rec.Case(c, nt, dedup(classes)...)
	rec.Evals(2)
	if nt && rec.WantSample() {
		rec.Sample(map[string]any{"case": c, "socketpair_lands_at": res.Low})
	}
	return nil
}

func TestC06Forkexec(t *testing.T) {
	rec := vh.NewRecorder(t, "C06", "exploration",
		"forkexec part: a helper process shapes its own table (2..12 marker files/pipe/probe binary dup3'ed onto numbers 3..40, holes left so the lowest free numbers - where the internal socketpair lands - fall below, inside or above the list), lists 1..12 descriptors (permutations, repeats, gaps, stdio, the close marker), exec by path or by a descriptor placed below/inside/above/just above the listed numbers, with and without SyncFunc / user namespace (vfork sharing), and starts the same Runner twice; the probe reports fstat identity and flags of every open descriptor; "+
			"container part: ExecveParam{Files,ExecFile} of length 0..12 over a live environment, two consecutive Execves; oracle: slot i == caller's Files[i] (dev,ino), FD_CLOEXEC clear, nothing else open, Runner value unchanged, second start identical; non-trivial = a repeat, a value below its index, or an internal descriptor inside the listed range")
	dir, err := vh.ScratchDir("c06")
	if err != nil {
		t.Fatalf("INFRA: %v", err)
	}
	defer os.RemoveAll(dir)
	vh.Check(t, rec, c06GenCase, func(c c06Case) error { return c06Run(c, dir, rec) })
}

// ---- container variant ---------------------------------------------------------------------------------

type c06CCase struct {
	Files    []int // marker ids; -3 = host's /dev/null, -1 = report pipe
	ByFd     bool
	RunTwice bool
	ByFd2    bool // second round: by descriptor (true) or by path (the two rounds may differ in shape)
}

func TestC06Container(t *testing.T) {
	rec := vh.NewRecorder(t, "C06", "exploration", "container part: see TestC06Forkexec")
	dir, err := vh.ScratchDir("c06c")
	if err != nil {
		t.Fatalf("INFRA: %v", err)
	}
	defer os.RemoveAll(dir)
	ce := &c09Env{}
	defer ce.close()
	// the environment has the probe bound at /vprobe, so that a round can also start it by path
	getEnv := func() (container.Environment, error) {
		if ce.env != nil {
			return ce.env, nil
		}
		mb := mount.NewDefaultBuilder().WithTmpfs("w", "").WithTmpfs("tmp", "").WithBind(probe.Path(), "vprobe", true).FilterNotExist()
		env, root, err := buildContainer(&container.Builder{Mounts: mb.Mounts})
		if err != nil {
			return nil, vh.Infraf("container build: %v", err)
		}
		ce.env, ce.root = env, root
		return env, nil
	}
	markers := map[int]*os.File{}
	defer func() {
		for _, f := range markers {
			f.Close()
		}
	}()
	marker := func(m int) (*os.File, error) {
		if f, ok := markers[m]; ok {
			return f, nil
		}
		f, err := os.OpenFile(filepath.Join(dir, fmt.Sprintf("m%d", m)), os.O_RDWR|os.O_CREATE, 0o644)
		if err != nil {
			return nil, vh.Infraf("%v", err)
		}
		markers[m] = f
		return f, nil
	}
	vh.Check(t, rec, func(rt *rapid.T) c06CCase {
		c := c06CCase{ByFd: rapid.Bool().Draw(rt, "byfd"), RunTwice: true, ByFd2: rapid.Bool().Draw(rt, "byfd2")}
		n := rapid.IntRange(1, 12).Draw(rt, "n")
		for i := 0; i < n; i++ {
			c.Files = append(c.Files, rapid.IntRange(-3, 5).Draw(rt, "m"))
			if c.Files[i] == -2 {
				c.Files[i] = 0
			}
		}
		c.Files[rapid.IntRange(0, n-1).Draw(rt, "rpos")] = -1
		return c
	}, func(c c06CCase) error {
		env, err := getEnv()
		if err != nil {
			return err
		}
		var prev string
		for round := 0; round < 2; round++ {
			byFd := c.ByFd
			if round == 1 {
				byFd = c.ByFd2
			}
			rp, err := newReportPipe()
			if err != nil {
				return err
			}
			var files []uintptr
			idents := make([]c06Ident, len(c.Files))
			rfd := -1
			for i, m := range c.Files {
				var f *os.File
				switch m {
				case -1:
					f = rp.pw
					if rfd < 0 {
						rfd = i
					}
				case -3:
					f = devNullFile()
				default:
					f, err = marker(m)
					if err != nil {
						rp.finish()
						return err
					}
				}
				var st unix.Stat_t
				unix.Fstat(int(f.Fd()), &st)
				idents[i] = c06Ident{st.Dev, st.Ino}
				files = append(files, f.Fd())
			}
			var s probe.Script
			s.Add("report:fds")
			s.Add("exit:0")
			argv := s.Argv(newTag(), rfd)
			p := container.ExecveParam{Args: argv, Env: []string{"A=1"}, Files: files}
			if byFd {
				efd, err := probeExecFd()
				if err != nil {
					rp.finish()
					return err
				}
				p.ExecFile = efd
				p.Args[0] = "/x/y/vprobe" // never looked at: the executable is the descriptor
			} else {
				p.Args[0] = "/vprobe"
			}
			res, hung, _ := runWithTimeout(func() runner.Result { return env.Execve(context.Background(), p) }, 0)
			rep := rp.finish()
			if hung {
				ce.close()
				return vh.Violf("C06:hung", "container Execve did not return: %+v", c)
			}
			if res.Status != runner.StatusNormal {
				ce.close()
				return vh.Violf("C06:start-failed", "container round %d: status %v error %q; %+v", round, res.Status, res.Error, c)
			}
			if !rep.FDsDone {
				return vh.Violf("C06:no-report", "container: incomplete report %q", rep.Raw)
			}
			fds := map[int]probe.FD{}
			for _, f := range rep.FDs {
				fds[f.N] = f
			}
			for i := range c.Files {
				got, ok := fds[i]
				if !ok {
					return vh.Violf("C06:slot-missing", "container round %d: slot %d not open; %+v", round, i, c)
				}
				if got.Dev != idents[i].Dev || got.Ino != idents[i].Ino {
					return vh.Violf("C06:wrong-file", "container round %d: slot %d is %d:%d, caller passed %d:%d; %+v", round, i, got.Dev, got.Ino, idents[i].Dev, idents[i].Ino, c)
				}
				if got.FdFlags&1 != 0 {
					return vh.Violf("C06:cloexec-set", "container round %d: slot %d has FD_CLOEXEC", round, i)
				}
			}
			for n, f := range fds {
				if n >= len(c.Files) {
					return vh.Violf("C06:extra-descriptor", "container round %d: descriptor %d (%d:%d mode %o) open in the program but not listed (init's stdio / control socket / received originals?); %+v", round, n, f.Dev, f.Ino, f.Mode, c)
				}
			}
			// compare the two rounds modulo the pipe's identity (a fresh pipe per round)
			var lines []string
			for i := range c.Files {
				lines = append(lines, fmt.Sprintf("%d:%v:%d", i, c.Files[i], fds[i].FdFlags))
			}
			cur := strings.Join(lines, ",")
			if round == 1 && cur != prev {
				return vh.Violf("C06:second-start-differs", "container: %s vs %s", prev, cur)
			}
			prev = cur
		}
		nt := len(c.Files) < 3 || len(c.Files) > 7
		rec.Case(c, nt, fmt.Sprintf("container-len=%d", len(c.Files)), fmt.Sprintf("container-rounds(by-descriptor=%v,then=%v)", c.ByFd, c.ByFd2))
		rec.Evals(2)
		if nt && rec.WantSample() {
			rec.Sample(c)
		}
		return nil
	})
	_ = syscall.Getpid
}

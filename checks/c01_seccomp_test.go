package checks

// C01 — the compiled seccomp filter implements the declared policy exactly.
// Oracle: (1) kernel acceptance rules re-implemented in internal/bpfvm, (2) a cBPF interpreter run on the exported
// []syscall.SockFilter compared with the policy model, (3) the running kernel (bin/vseccomp) on sampled numbers.

import (
	"bytes"
	"encoding/binary"
	"encoding/hex"
	"fmt"
	"os/exec"
	"path/filepath"
	"reflect"
	"sort"
	"strconv"
	"strings"
	"sync"
	"syscall"
	"testing"

	"github.com/criyle/go-sandbox/cmd/runprog/config"
	"github.com/criyle/go-sandbox/pkg/seccomp"
	"github.com/criyle/go-sandbox/pkg/seccomp/libseccomp"
	"github.com/elastic/go-seccomp-bpf/arch"
	"pgregory.net/rapid"

	"verif/internal/bpfvm"
	"verif/internal/systable"
	"verif/internal/vh"
)

const (
	auditArchX8664   = 0xC000003E
	auditArchI386    = 0x40000003
	auditArchAArch64 = 0xC00000B7
	x32Bit           = 0x40000000
)

type c01Case struct {
	Allow   []string
	Trace   []string
	Default uint32
	ArgSeed uint64
	Later   []c01Case // policies built after this one while its filter is still held (it is installed only afterwards)
}

var (
	c01Once  sync.Once
	c01Names []string       // names known to the library under test (the domain a caller can express)
	c01Num   map[string]int // oracle numbering: kernel uapi header first, library table only for names the header lacks
	c01Newer int
	c01Bad   []string
)

func c01Table() {
	c01Once.Do(func() {
		info, err := arch.GetInfo("")
		if err != nil {
			panic(err)
		}
		c01Num = map[string]int{}
		for name, nr := range info.SyscallNames {
			c01Names = append(c01Names, name)
			if h, ok := systable.AMD64[name]; ok {
				c01Num[name] = h
				if h != nr {
					c01Bad = append(c01Bad, fmt.Sprintf("%s: header %d, library %d", name, h, nr))
				}
			} else {
				c01Num[name] = nr
				c01Newer++
			}
		}
		sort.Strings(c01Names)
	})
}

// c01Default is the model of the default action.
func c01Default(d uint32) uint32 {
	switch d & 0xffff {
	case uint32(libseccomp.ActionAllow):
		return bpfvm.RetAllow
	case uint32(libseccomp.ActionErrno):
		return bpfvm.RetErrno | uint32(syscall.EPERM)
	case uint32(libseccomp.ActionTrace):
		return bpfvm.RetTrace
	default:
		return bpfvm.RetKillProcess
	}
}

// c01Model gives the set of acceptable filter results for one seccomp_data.
func c01Model(allow, trace map[uint32]bool, def uint32, d *bpfvm.Data) (want uint32, alt func(uint32) bool) {
	if d.Arch != auditArchX8664 {
		return def, nil
	}
	if d.NR >= x32Bit {
		// refused outright: an errno action with a non-zero errno, or a kill; never allow/trace/log
		return bpfvm.RetErrno | uint32(syscall.ENOSYS), func(r uint32) bool {
			act := r & bpfvm.RetActionFull
			if act == bpfvm.RetErrno && r&bpfvm.RetData != 0 {
				return true
			}
			if act == bpfvm.RetKillProcess || act == bpfvm.RetKillThread {
				return true
			}
			return d.NR&x32Bit == 0 && r == def && def != bpfvm.RetAllow && def != bpfvm.RetTrace
		}
	}
	if allow[d.NR] {
		return bpfvm.RetAllow, nil
	}
	if trace[d.NR] {
		return bpfvm.RetTrace, nil
	}
	return def, nil
}

func c01Numbers(c c01Case, prog []syscall.SockFilter, extra []uint32) []uint32 {
	seen := map[uint32]bool{}
	var out []uint32
	add := func(v uint32) {
		if !seen[v] {
			seen[v] = true
			out = append(out, v)
		}
	}
	for i := uint32(0); i < 1024; i++ {
		add(i)
	}
	for _, n := range c01Num {
		add(uint32(n))
		add(uint32(n) | x32Bit)
	}
	for _, ins := range prog {
		add(ins.K)
		add(ins.K + 1)
		add(ins.K - 1)
	}
	for _, v := range []uint32{0x3fffffff, 0x40000000, 0x40000001, 0x7fffffff, 0x80000000, 0x80000001, 0xbfffffff, 0xc0000000, 0xffffffff, 0xfffffffe, 0x10000, 0x10001, 0xffff, 0x100, 0x1ff} {
		add(v)
	}
	for _, v := range extra {
		add(v)
	}
	return out
}

type splitmix uint64

func (s *splitmix) next() uint64 {
	*s += 0x9e3779b97f4a7c15
	z := uint64(*s)
	z = (z ^ (z >> 30)) * 0xbf58476d1ce4e5b9
	z = (z ^ (z >> 27)) * 0x94d049bb133111eb
	return z ^ (z >> 31)
}

// c01Semantic checks a built filter against the model; returns the number of evaluations.
func c01Semantic(c c01Case, f seccomp.Filter, rec *vh.Recorder) error {
	prog := []syscall.SockFilter(f)
	if err := bpfvm.Validate(prog); err != nil {
		return vh.Violf("C01:kernel-would-reject", "filter for %s: %v", c01Brief(c), err)
	}
	if fp := f.SockFprog(); int(fp.Len) != len(prog) || fp.Filter != &prog[0] {
		return vh.Violf("C01:sockfprog", "SockFprog len %d for %d instructions", fp.Len, len(prog))
	}
	allow, trace := map[uint32]bool{}, map[uint32]bool{}
	for _, n := range c.Allow {
		allow[uint32(c01Num[n])] = true
	}
	for _, n := range c.Trace {
		trace[uint32(c01Num[n])] = true
	}
	def := c01Default(c.Default)
	rng := splitmix(c.ArgSeed)
	var extra []uint32
	for i := 0; i < 128; i++ {
		extra = append(extra, uint32(rng.next()))
	}
	nums := c01Numbers(c, prog, extra)
	arches := []uint32{auditArchX8664, auditArchI386, auditArchAArch64, 0, 0xffffffff, auditArchX8664 ^ 1, auditArchX8664 &^ 0x80000000, uint32(rng.next())}
	evals := 0
	var tr bpfvm.Trace
	for ai, a := range arches {
		for _, nr := range nums {
			if ai > 0 && nr > 2048 && nr&0xff != 0x13 {
				// foreign arch: thin out the huge constants' neighbourhoods (the arch test precedes any nr test)
				if nr%7 != 0 {
					continue
				}
			}
			d := bpfvm.Data{NR: nr, Arch: a, IP: rng.next()}
			for i := range d.Args {
				d.Args[i] = rng.next()
			}
			got, err := bpfvm.Run(prog, &d, &tr)
			evals++
			if err != nil {
				return vh.Violf("C01:bad-program", "%s: %v", c01Brief(c), err)
			}
			want, alt := c01Model(allow, trace, def, &d)
			if got != want && (alt == nil || !alt(got)) {
				kind := "wrong-action"
				switch {
				case a != auditArchX8664:
					kind = "foreign-arch"
				case nr >= x32Bit:
					kind = "x32"
				case allow[nr]:
					kind = "allow-listed"
				case trace[nr]:
					kind = "trace-listed"
				default:
					kind = "unlisted"
				}
				return vh.Violf("C01:"+kind, "nr=%#x arch=%#x: filter returns %#x, policy says %#x; %s", nr, a, got, want, c01Brief(c))
			}
		}
	}
	for off := range tr.LoadOffsets {
		if off != 0 && off != 4 {
			return vh.Violf("C01:reads-arguments", "filter reads seccomp_data offset %d; %s", off, c01Brief(c))
		}
	}
	rec.Evals(evals)
	if bpfvm.Analyse(prog).OnlyConstCompares {
		rec.Class("exhaustive_over_nr(partition by constants)", 1)
	} else {
		rec.Class("sampled_over_nr(program uses non-compare ops)", 1)
	}
	return nil
}

func c01Brief(c c01Case) string {
	s := func(l []string) string {
		if len(l) > 6 {
			return fmt.Sprintf("%v…(%d)", l[:6], len(l))
		}
		return fmt.Sprint(l)
	}
	return fmt.Sprintf("allow=%s trace=%s default=%#x", s(c.Allow), s(c.Trace), c.Default)
}

func c01GenPolicy(rt *rapid.T) c01Case {
	c01Table()
	n := len(c01Names)
	sizeGen := rapid.OneOf(
		rapid.IntRange(0, 3),
		rapid.IntRange(0, 40),
		rapid.IntRange(120, 135),
		rapid.IntRange(250, 262),
		rapid.IntRange(0, n),
		rapid.Just(n),
	)
	na := sizeGen.Draw(rt, "nallow")
	nt := sizeGen.Draw(rt, "ntrace")
	if na+nt > n {
		if rapid.Bool().Draw(rt, "shrinkAllow") {
			na = n - nt
		} else {
			nt = n - na
		}
	}
	perm := rapid.Permutation(c01Names).Draw(rt, "order")
	c := c01Case{Allow: append([]string{}, perm[:na]...), Trace: append([]string{}, perm[na:na+nt]...)}
	c.Default = rapid.OneOf(
		rapid.SampledFrom([]uint32{0, 1, 2, 3, 4, 1, 2, 3, 4}),
		rapid.Uint32Range(5, 255),
		rapid.SampledFrom([]uint32{0x10001, 0x10002, 0x10003, 0xffff0003, 0xffff0001, 0x80000001, 0x7fff0000, 0x00050001, 0xffff}),
		rapid.Uint32(),
	).Draw(rt, "default")
	c.ArgSeed = rapid.Uint64().Draw(rt, "argseed")
	return c
}

func c01NonTrivial(c c01Case) bool { return len(c.Allow) > 0 && len(c.Trace) > 0 }

func c01Key(c c01Case) any {
	return []any{c.Allow, c.Trace, c.Default}
}

func c01RunPolicy(c c01Case, rec *vh.Recorder) error {
	c01Table()
	if len(c01Bad) > 0 {
		return vh.Infraf("library syscall table disagrees with the kernel header: %v", c01Bad)
	}
	b := libseccomp.Builder{Allow: c.Allow, Trace: c.Trace, Default: libseccomp.Action(c.Default)}
	f, err := b.Build()
	if err != nil {
		return vh.Violf("C01:build-error", "Build failed for an expressible policy: %v; %s", err, c01Brief(c))
	}
	if len(f) == 0 {
		return vh.Violf("C01:empty-filter", "empty filter; %s", c01Brief(c))
	}
	if len(c.Later) > 0 {
		snap := append(f[:0:0], f...)
		for _, l := range c.Later {
			lb := libseccomp.Builder{Allow: l.Allow, Trace: l.Trace, Default: libseccomp.Action(l.Default)}
			if _, err := lb.Build(); err != nil {
				return vh.Violf("C01:build-error", "Build failed for an expressible policy: %v; %s", err, c01Brief(l))
			}
		}
		if !reflect.DeepEqual(snap, f) {
			return vh.Violf("C01:filter-changed-by-later-build", "the filter built for this policy was %d instructions and reads differently after %d later Build calls; %s", len(snap), len(c.Later), c01Brief(c))
		}
		rec.Class("held-across-later-builds", 1)
	}
	classes := []string{fmt.Sprintf("default=%s", c01DefName(c.Default))}
	tot := len(c.Allow) + len(c.Trace)
	switch {
	case tot == 0:
		classes = append(classes, "size=0")
	case tot < 120:
		classes = append(classes, "size<120")
	case tot < 250:
		classes = append(classes, "size<250")
	case tot <= 262:
		classes = append(classes, "size=250..262(long-jump boundary)")
	default:
		classes = append(classes, "size>262")
	}
	rec.Case(c01Key(c), c01NonTrivial(c), classes...)
	if rec.WantSample() && c01NonTrivial(c) && tot < 12 {
		rec.Sample(c)
	}
	return c01Semantic(c, f, rec)
}

func c01DefName(d uint32) string {
	switch {
	case d == 0:
		return "unset"
	case d >= 1 && d <= 4:
		return []string{"", "allow", "errno", "trace", "kill"}[d]
	case d&0xffff >= 1 && d&0xffff <= 4:
		return "highbits+" + []string{"", "allow", "errno", "trace", "kill"}[d&0xffff]
	default:
		return "undefined"
	}
}

func TestC01Policy(t *testing.T) {
	rec := vh.NewRecorder(t, "C01", "exploration",
		"policy = random disjoint allow/trace subsets of the library's 380-name x86-64 table (sizes biased to 0, small, the 127/255 jump boundaries, the whole table; random order) x default in {unset, allow, errno, trace, kill, undefined 5..255, values with bits above 16}; "+
			"each built filter is validated against the kernel's acceptance rules and interpreted on all table numbers, 0..1023, every program constant K and K+-1, x32-tagged numbers, boundary values, 128 random numbers x 8 architecture tags x random argument words; "+
			"non-trivial = policy has >=1 allow and >=1 trace name; distinct = distinct (allow order, trace order, default)")
	rec.Assume("syscall numbering oracle: /usr/include asm/unistd_64.h (362 names); the library's own table is trusted only for the newer names the header lacks")
	rec.Assume("foreign-ABI behaviour is decided on filter semantics (arch tag / x32 bit), not observed at the kernel: this VM has no int 0x80 / x32 entry")
	vh.Check(t, rec, func(rt *rapid.T) c01Case {
		c := c01GenPolicy(rt)
		for n := rapid.IntRange(0, 2).Draw(rt, "nlater"); n > 0; n-- {
			l := c01GenPolicy(rt)
			if rapid.Bool().Draw(rt, "smaller") && len(l.Allow)+len(l.Trace) > len(c.Allow)+len(c.Trace) {
				// a later program that is not longer than the held one
				if len(l.Allow) > len(c.Allow) {
					l.Allow = l.Allow[:len(c.Allow)]
				}
				if len(l.Trace) > len(c.Trace) {
					l.Trace = l.Trace[:len(c.Trace)]
				}
			}
			c.Later = append(c.Later, l)
		}
		return c
	}, func(c c01Case) error { return c01RunPolicy(c, rec) })
}

// ---- malformed policies and GetConf ----------------------------------------------------------

type c01ConfCase struct {
	PType     string
	AllowProc bool
	AddRead   []string
	AddWrite  []string
	WorkPath  string
	Arg0      string
}

func TestC01GetConf(t *testing.T) {
	rec := vh.NewRecorder(t, "C01", "exploration", "GetConf part: every program type of runprog's table plus unknown types x allowProc x extra path lists; the returned allow/trace lists must be duplicate-free and disjoint, build, and pass the same semantic check; malformed policies (unknown name, duplicate in one list) must be rejected with an error and no filter")
	types := []string{"", "default", "python2", "python2.7", "python3", "python3.6", "compiler", "java", "unknown-type", "c", "cpp"}
	vh.Check(t, rec, func(rt *rapid.T) c01ConfCase {
		c := c01ConfCase{
			PType:     rapid.SampledFrom(types).Draw(rt, "ptype"),
			AllowProc: rapid.Bool().Draw(rt, "allowProc"),
			WorkPath:  rapid.SampledFrom([]string{"/w", "/tmp/x", "/"}).Draw(rt, "work"),
			Arg0:      rapid.SampledFrom([]string{"/bin/true", "./a.out", "/w/prog"}).Draw(rt, "arg0"),
		}
		c.AddRead = rapid.SliceOfN(rapid.SampledFrom([]string{"/etc/hosts", "./in", "/usr/", "data/"}), 0, 3).Draw(rt, "addRead")
		c.AddWrite = rapid.SliceOfN(rapid.SampledFrom([]string{"/dev/null", "./out", "/tmp/"}), 0, 3).Draw(rt, "addWrite")
		return c
	}, func(c c01ConfCase) error {
		c01Table()
		_, allow, trace, h := config.GetConf(c.PType, c.WorkPath, []string{c.Arg0}, c.AddRead, c.AddWrite, c.AllowProc)
		if h == nil {
			return vh.Violf("C01:getconf-nil", "nil handler")
		}
		seen := map[string]string{}
		for _, n := range allow {
			if seen[n] != "" {
				return vh.Violf("C01:getconf-dup", "%q twice (allow/%s) for %+v", n, seen[n], c)
			}
			seen[n] = "allow"
		}
		for _, n := range trace {
			if seen[n] != "" {
				return vh.Violf("C01:getconf-dup", "%q in trace and %s for %+v", n, seen[n], c)
			}
			seen[n] = "trace"
		}
		// the names every configuration must trace (file access + exec), whatever else was appended
		for _, must := range []string{"execve", "open", "openat", "unlink", "readlink", "stat", "lstat", "access"} {
			if seen[must] != "trace" {
				return vh.Violf("C01:getconf-precedence", "%q is %q, must be traced; %+v", must, seen[must], c)
			}
		}
		sort.Strings(allow)
		sort.Strings(trace)
		pc := c01Case{Allow: allow, Trace: trace, Default: uint32(libseccomp.ActionTrace), ArgSeed: 7}
		rec.Case(c, true, "ptype="+c.PType)
		if rec.WantSample() {
			rec.Sample(c)
		}
		b := libseccomp.Builder{Allow: allow, Trace: trace, Default: libseccomp.ActionTrace}
		f, err := b.Build()
		if err != nil {
			return vh.Violf("C01:getconf-build", "lists from GetConf do not build: %v", err)
		}
		return c01Semantic(pc, f, rec)
	})
}

func TestC01Malformed(t *testing.T) {
	rec := vh.NewRecorder(t, "C01", "exploration", "malformed part: unknown syscall name or a duplicate inside one list => Build returns an error and no filter")
	vh.Check(t, rec, func(rt *rapid.T) c01Case {
		c := c01GenPolicy(rt)
		if len(c.Allow) > 30 {
			c.Allow = c.Allow[:30]
		}
		if len(c.Trace) > 30 {
			c.Trace = c.Trace[:30]
		}
		kind := rapid.IntRange(0, 3).Draw(rt, "kind")
		pos := func(l []string) int { return rapid.IntRange(0, len(l)).Draw(rt, "pos") }
		ins := func(l []string, i int, s string) []string {
			return append(append(append([]string{}, l[:i]...), s), l[i:]...)
		}
		switch kind {
		case 0:
			c.Allow = ins(c.Allow, pos(c.Allow), "no_such_syscall")
		case 1:
			c.Trace = ins(c.Trace, pos(c.Trace), "")
		case 2:
			if len(c.Allow) == 0 {
				c.Allow = []string{"read"}
			}
			c.Allow = ins(c.Allow, pos(c.Allow), c.Allow[0])
		default:
			if len(c.Trace) == 0 {
				c.Trace = []string{"open"}
			}
			c.Trace = ins(c.Trace, pos(c.Trace), c.Trace[len(c.Trace)-1])
		}
		return c
	}, func(c c01Case) error {
		b := libseccomp.Builder{Allow: c.Allow, Trace: c.Trace, Default: libseccomp.Action(c.Default)}
		f, err := b.Build()
		rec.Case(c01Key(c), true)
		if err == nil || f != nil {
			return vh.Violf("C01:malformed-accepted", "err=%v filter len=%d for %s", err, len(f), c01Brief(c))
		}
		return nil
	})
}

// ---- kernel differential ---------------------------------------------------------------------

var c01Harmless = map[string]func(ret int64) bool{
	"getpid":  func(r int64) bool { return r > 0 },
	"getppid": func(r int64) bool { return r > 0 },
	"gettid":  func(r int64) bool { return r > 0 },
	"getuid":  func(r int64) bool { return r == 65534 },
	"getgid":  func(r int64) bool { return r == 65534 },
	"geteuid": func(r int64) bool { return r == 65534 },
	"getegid": func(r int64) bool { return r == 65534 },
	"close":   func(r int64) bool { return r == -int64(syscall.EBADF) },
	"read":    func(r int64) bool { return r == -int64(syscall.EBADF) },
	"write":   func(r int64) bool { return r == -int64(syscall.EBADF) },
	"dup":     func(r int64) bool { return r == -int64(syscall.EBADF) },
	"lseek":   func(r int64) bool { return r == -int64(syscall.EBADF) },
	"fstat":   func(r int64) bool { return r == -int64(syscall.EBADF) },
	"fsync":   func(r int64) bool { return r == -int64(syscall.EBADF) },
	"getpgrp": func(r int64) bool { return r > 0 },
}

func filterHex(f seccomp.Filter) string {
	var b bytes.Buffer
	for _, ins := range f {
		_ = binary.Write(&b, binary.LittleEndian, ins.Code)
		b.WriteByte(ins.Jt)
		b.WriteByte(ins.Jf)
		_ = binary.Write(&b, binary.LittleEndian, ins.K)
	}
	return hex.EncodeToString(b.Bytes())
}

func TestC01Kernel(t *testing.T) {
	rec := vh.NewRecorder(t, "C01", "exploration", "kernel part: the filter bytes are loaded into real children (uid 65534, no_new_privs) by bin/vseccomp and ~14 sampled numbers are issued: allow-listed samples from a curated harmless list, the others unrestricted; expected: real result / -ENOSYS (trace without tracer, x32) / -EPERM / death by SIGSYS, and the kernel accepts the program")
	vs := filepath.Join(vh.Root(), "bin", "vseccomp")
	harmless := make([]string, 0, len(c01Harmless))
	for n := range c01Harmless {
		harmless = append(harmless, n)
	}
	sort.Strings(harmless)
	type kcase struct {
		P       c01Case
		Samples []uint32
	}
	vh.Check(t, rec, func(rt *rapid.T) kcase {
		c01Table()
		c := c01GenPolicy(rt)
		// allow list: only harmless names (they will really execute) + optionally exit_group
		inAllow := map[string]bool{}
		var allow []string
		for _, n := range harmless {
			if rapid.IntRange(0, 2).Draw(rt, "h") == 0 {
				allow = append(allow, n)
				inAllow[n] = true
			}
		}
		if rapid.Bool().Draw(rt, "exit_group") {
			allow = append(allow, "exit_group")
			inAllow["exit_group"] = true
		}
		var trace []string
		for _, n := range append(c.Allow, c.Trace...) {
			if !inAllow[n] && n != "exit_group" && n != "exit" {
				trace = append(trace, n)
			}
		}
		c.Allow, c.Trace = allow, trace
		if c.Default&0xffff == uint32(libseccomp.ActionAllow) {
			c.Default = uint32(libseccomp.ActionKill) // never really execute an arbitrary syscall
		}
		k := kcase{P: c}
		for i := 0; i < 14; i++ {
			switch rapid.IntRange(0, 4).Draw(rt, "sk") {
			case 0:
				if len(allow) > 0 {
					n := rapid.SampledFrom(allow).Draw(rt, "sa")
					if n != "exit_group" {
						k.Samples = append(k.Samples, uint32(c01Num[n]))
					}
				}
			case 1:
				if len(trace) > 0 {
					k.Samples = append(k.Samples, uint32(c01Num[rapid.SampledFrom(trace).Draw(rt, "st")]))
				}
			case 2:
				n := rapid.SampledFrom(c01Names).Draw(rt, "sn")
				if n == "uretprobe" || n == "uprobe" {
					// kernels >= 6.14 pass these two through seccomp unfiltered (they are only legal from the
					// uprobe trampoline and SIGILL otherwise): a kernel peculiarity, not the filter's
					n = "getpid"
				}
				k.Samples = append(k.Samples, uint32(c01Num[n]))
			case 3:
				k.Samples = append(k.Samples, uint32(c01Num[rapid.SampledFrom(c01Names).Draw(rt, "sx")])|x32Bit)
			default:
				k.Samples = append(k.Samples, rapid.Uint32Range(1000, 0x3fffffff).Draw(rt, "sr"))
			}
		}
		// filter: never really execute anything outside the harmless list; skip the two numbers newer kernels
		// pass through seccomp unfiltered (uretprobe/uprobe: only legal from the uprobe trampoline, SIGILL otherwise)
		kept := k.Samples[:0]
		for _, s := range k.Samples {
			name := ""
			for n, v := range c01Num {
				if uint32(v) == s {
					name = n
				}
			}
			if name == "uretprobe" || name == "uprobe" || (inAllow[name] && c01Harmless[name] == nil) {
				continue
			}
			kept = append(kept, s)
		}
		k.Samples = kept
		return k
	}, func(k kcase) error {
		c := k.P
		b := libseccomp.Builder{Allow: c.Allow, Trace: c.Trace, Default: libseccomp.Action(c.Default)}
		f, err := b.Build()
		if err != nil {
			return vh.Violf("C01:build-error", "%v; %s", err, c01Brief(c))
		}
		if len(k.Samples) == 0 {
			return nil
		}
		allow, trace := map[uint32]bool{}, map[uint32]bool{}
		for _, n := range c.Allow {
			allow[uint32(c01Num[n])] = true
		}
		for _, n := range c.Trace {
			trace[uint32(c01Num[n])] = true
		}
		byNum := map[uint32]string{}
		for n, v := range c01Num {
			byNum[uint32(v)] = n
		}
		args := []string{filterHex(f)}
		for _, s := range k.Samples {
			if s < x32Bit && allow[s] && c01Harmless[byNum[s]] == nil {
				return vh.Infraf("generator produced a non-harmless allow sample %d", s)
			}
			args = append(args, strconv.FormatUint(uint64(s), 10))
		}
		out, err := exec.Command(vs, args...).CombinedOutput()
		if err != nil {
			return vh.Infraf("vseccomp: %v: %s", err, out)
		}
		lines := strings.Split(strings.TrimSpace(string(out)), "\n")
		if len(lines) != len(k.Samples) {
			return vh.Infraf("vseccomp output %q", out)
		}
		def := c01Default(c.Default)
		nt := false
		for i, ln := range lines {
			fs := strings.Fields(ln)
			nr := k.Samples[i]
			if len(fs) < 2 {
				return vh.Infraf("vseccomp line %q", ln)
			}
			if fs[1] == "rejected" {
				return vh.Violf("C01:kernel-rejects", "the kernel refuses the filter (errno %s); %s", fs[2], c01Brief(c))
			}
			d := bpfvm.Data{NR: nr, Arch: auditArchX8664}
			want, _ := c01Model(allow, trace, def, &d)
			ok := false
			switch {
			case want == bpfvm.RetAllow:
				nt = true
				if fs[1] == "ret" {
					r, _ := strconv.ParseInt(fs[2], 10, 64)
					ok = c01Harmless[byNum[nr]](r)
				}
			case want == bpfvm.RetTrace, want == bpfvm.RetErrno|uint32(syscall.ENOSYS):
				ok = fs[1] == "ret" && fs[2] == strconv.Itoa(-int(syscall.ENOSYS))
			case want == bpfvm.RetErrno|uint32(syscall.EPERM):
				ok = fs[1] == "ret" && fs[2] == strconv.Itoa(-int(syscall.EPERM))
			case want == bpfvm.RetKillProcess:
				ok = fs[1] == "sigsys"
			}
			if !ok {
				return vh.Violf("C01:kernel-disagrees", "nr %#x (%s): kernel says %q, policy result %#x; %s", nr, byNum[nr&^x32Bit], ln, want, c01Brief(c))
			}
			// and the interpreter agrees with the kernel on this sample (validates the interpreter)
			got, _ := bpfvm.Run([]syscall.SockFilter(f), &d, nil)
			if got != want {
				return vh.Violf("C01:interp-vs-model", "nr %#x: interpreter %#x model %#x", nr, got, want)
			}
		}
		rec.Evals(len(lines))
		rec.Case([]any{c01Key(c), k.Samples}, nt && len(c.Trace) > 0, "kernel-policy")
		if rec.WantSample() {
			rec.Sample(map[string]any{"policy": c01Brief(c), "samples": k.Samples, "kernel": lines})
		}
		return nil
	})
}

// ---- brute force over all 2^32 numbers (thorough) ----------------------------------------------

func TestC01Brute(t *testing.T) {
	rec := vh.NewRecorder(t, "C01", "exploration", "brute part (thorough tier): all 2^32 syscall numbers x {x86-64, i386, aarch64} tags for the empty policy, runprog's default policy and a 300-name policy, as a cross-check of the partition-by-constants argument; quick tier: 2^22 strided numbers")
	defer rec.Write()
	c01Table()
	_, dAllow, dTrace, _ := config.GetConf("default", "/w", []string{"/bin/true"}, nil, nil, false)
	sort.Strings(dAllow)
	sort.Strings(dTrace)
	policies := []c01Case{
		{Default: 0},
		{Allow: dAllow, Trace: dTrace, Default: uint32(libseccomp.ActionTrace)},
		{Allow: c01Names[:200], Trace: c01Names[200:300], Default: uint32(libseccomp.ActionErrno)},
	}
	stride := uint64(1)
	if !vh.Thorough() {
		stride = 509
	}
	for pi, c := range policies {
		b := libseccomp.Builder{Allow: c.Allow, Trace: c.Trace, Default: libseccomp.Action(c.Default)}
		f, err := b.Build()
		if err != nil {
			vh.Report(t, rec, c, vh.Violf("C01:build-error", "%v", err))
			return
		}
		prog := []syscall.SockFilter(f)
		allow, trace := map[uint32]bool{}, map[uint32]bool{}
		for _, n := range c.Allow {
			allow[uint32(c01Num[n])] = true
		}
		for _, n := range c.Trace {
			trace[uint32(c01Num[n])] = true
		}
		def := c01Default(c.Default)
		const workers = 16
		var wg sync.WaitGroup
		errs := make([]error, workers)
		counts := make([]int, workers)
		for w := 0; w < workers; w++ {
			wg.Add(1)
			go func(w int) {
				defer wg.Done()
				for _, a := range []uint32{auditArchX8664, auditArchI386, auditArchAArch64} {
					for n := uint64(w) * stride; n < 1<<32; n += workers * stride {
						d := bpfvm.Data{NR: uint32(n), Arch: a}
						got, err := bpfvm.Run(prog, &d, nil)
						counts[w]++
						want, alt := c01Model(allow, trace, def, &d)
						if err != nil || (got != want && (alt == nil || !alt(got))) {
							errs[w] = vh.Violf("C01:brute", "policy %d nr=%#x arch=%#x got %#x want %#x err=%v", pi, n, a, got, want, err)
							return
						}
					}
				}
			}(w)
		}
		wg.Wait()
		tot := 0
		for w := range errs {
			tot += counts[w]
			if errs[w] != nil {
				vh.Report(t, rec, c, errs[w])
				return
			}
		}
		rec.Evals(tot)
		rec.Case(c01Key(c), true, "brute")
	}
	rec.Sample(map[string]any{"policy": "runprog default", "allow": len(dAllow), "trace": len(dTrace), "numbers": fmt.Sprintf("all 2^32 / stride %d", stride)})
	if vh.Thorough() {
		rec.Extra("brute_force_all_2^32_numbers_x3_arch_tags_policies", len(policies))
	}
}

package checks

// C04 — the program starts in exactly the requested security state, for every option set.
// The target is vprobe (ExecFile); it reports ids, capability sets, securebits, no_new_privs, seccomp mode, cwd, uts and
// then blocks; meanwhile the harness reads /proc/<pid>/{status,ns/*,cgroup} from the host. Only the directions the
// statement gives are asserted.

import (
	"bufio"
	"fmt"
	"os"
	"path/filepath"
	"runtime"
	"strconv"
	"strings"
	"syscall"
	"testing"
	"time"
	"unsafe"

	"github.com/criyle/go-sandbox/pkg/forkexec"
	"github.com/criyle/go-sandbox/pkg/mount"
	"github.com/criyle/go-sandbox/pkg/seccomp/libseccomp"
	"golang.org/x/sys/unix"
	"pgregory.net/rapid"

	"verif/internal/probe"
	"verif/internal/vh"
)

type c04Case struct {
	Cred       string // none | user | user-nosetgroups | root
	DropCaps   bool
	NoNewPrivs bool
	Seccomp    bool
	Ptrace     bool
	StopBefore bool
	Sync       bool
	LateCgroup bool     // UnshareCgroupAfterSync
	NS         []string // subset of user pid mnt uts ipc net cgroup
	Pivot      bool
	Names      bool // HostName / DomainName
	WorkDir    bool
	// how the work dir is spelled: 0 plain; 1 "<base>/current/../shared" with current -> runs/7 (the kernel means
	// <base>/runs/shared; <base>/shared exists too); 2 "<base>/runs/7/../shared/." (no symlink involved)
	WDShape  int `json:",omitempty"`
	CgroupFd bool
	// capabilities missing from the *launcher's* effective set while it starts the child (a service with a trimmed
	// capability set): the launch may be refused, but a program that does start must still be in the requested state
	LauncherDrop []int `json:",omitempty"`
}

// c04Caps: the capabilities the launch sequence itself needs at one point or another.
var c04Caps = map[int]string{1: "DAC_OVERRIDE", 6: "SETGID", 7: "SETUID", 8: "SETPCAP", 18: "SYS_CHROOT", 21: "SYS_ADMIN"}

type c04CapHdr struct {
	Version uint32
	Pid     int32
}
type c04CapData struct{ Eff, Prm, Inh uint32 }

// c04DropEffective clears the given capabilities in the calling thread's effective set and returns the function that
// restores the previous sets. The caller holds the OS thread.
func c04DropEffective(caps []int) (func() error, error) {
	hdr := c04CapHdr{Version: 0x20080522}
	var old [2]c04CapData
	if _, _, e := syscall.RawSyscall(syscall.SYS_CAPGET, uintptr(unsafe.Pointer(&hdr)), uintptr(unsafe.Pointer(&old[0])), 0); e != 0 {
		return nil, e
	}
	nw := old
	for _, c := range caps {
		nw[c/32].Eff &^= 1 << uint(c%32)
	}
	if _, _, e := syscall.RawSyscall(syscall.SYS_CAPSET, uintptr(unsafe.Pointer(&hdr)), uintptr(unsafe.Pointer(&nw[0])), 0); e != 0 {
		return nil, e
	}
	return func() error {
		if _, _, e := syscall.RawSyscall(syscall.SYS_CAPSET, uintptr(unsafe.Pointer(&hdr)), uintptr(unsafe.Pointer(&old[0])), 0); e != 0 {
			return e
		}
		return nil
	}, nil
}

var c04NSFlag = map[string]uintptr{"user": unix.CLONE_NEWUSER, "pid": unix.CLONE_NEWPID, "mnt": unix.CLONE_NEWNS, "uts": unix.CLONE_NEWUTS,
	"ipc": unix.CLONE_NEWIPC, "net": unix.CLONE_NEWNET, "cgroup": unix.CLONE_NEWCGROUP}
var c04NSKinds = []string{"user", "pid", "mnt", "uts", "ipc", "net", "cgroup"}

func (c c04Case) has(ns string) bool {
	for _, n := range c.NS {
		if n == ns {
			return true
		}
	}
	return false
}

// c04Normalize enforces the generator's safety rules and documented exclusions.
func c04Normalize(c c04Case) c04Case {
	if !c.has("mnt") {
		c.Pivot = false // a pivot_root outside a private mount namespace would hit the host
	}
	if !c.has("uts") {
		c.Names = false
	}
	if c.has("pid") {
		// the code's own comment: a pid-namespace init ignores its self-SIGSTOP, so the stop the tracer waits for never happens
		c.Ptrace, c.StopBefore = false, false
	}
	if c.Pivot {
		c.WorkDir = true
	}
	if c.StopBefore && c.Sync && !(c.Ptrace && c.Seccomp) {
		// not drivable: the child stops itself *before* the sync hand-shake and Start() blocks in that hand-shake, so the
		// caller never gets the pid it would have to SIGCONT (observation recorded in DESIGN.md; no listed property covers it)
		c.StopBefore = false
	}
	return c
}

func c04GenRandom(rt *rapid.T) c04Case {
	c := c04Case{
		Cred:       rapid.SampledFrom([]string{"none", "none", "user", "user", "user-nosetgroups", "root"}).Draw(rt, "cred"),
		DropCaps:   rapid.Bool().Draw(rt, "dropcaps"),
		NoNewPrivs: rapid.Bool().Draw(rt, "nnp"),
		Seccomp:    rapid.Bool().Draw(rt, "seccomp"),
		Ptrace:     rapid.IntRange(0, 3).Draw(rt, "ptrace") == 0,
		StopBefore: rapid.IntRange(0, 3).Draw(rt, "stop") == 0,
		Sync:       rapid.Bool().Draw(rt, "sync"),
		LateCgroup: rapid.Bool().Draw(rt, "latecgroup"),
		Pivot:      rapid.Bool().Draw(rt, "pivot"),
		Names:      rapid.Bool().Draw(rt, "names"),
		WorkDir:    rapid.Bool().Draw(rt, "workdir"),
		WDShape:    rapid.SampledFrom([]int{0, 0, 1, 1, 2}).Draw(rt, "wdshape"),
		CgroupFd:   rapid.IntRange(0, 3).Draw(rt, "cgroupfd") == 0,
	}
	switch rapid.IntRange(0, 9).Draw(rt, "launchercaps") {
	case 0, 1:
		c.LauncherDrop = []int{8}
	case 2:
		for _, k := range []int{1, 6, 7, 8, 18, 21} {
			if rapid.Bool().Draw(rt, "drop-"+c04Caps[k]) {
				c.LauncherDrop = append(c.LauncherDrop, k)
			}
		}
	}
	for _, k := range c04NSKinds {
		if rapid.IntRange(0, 2).Draw(rt, "ns-"+k) == 0 {
			c.NS = append(c.NS, k)
		}
	}
	return c04Normalize(c)
}

// c04DataDir prepares <dir>/data: runs/7, runs/shared, shared, current -> runs/7.
func c04DataDir(dir string) string {
	d := filepath.Join(dir, "data")
	if _, err := os.Lstat(filepath.Join(d, "current")); err != nil {
		os.MkdirAll(filepath.Join(d, "runs", "7"), 0o755)
		os.MkdirAll(filepath.Join(d, "runs", "shared"), 0o755)
		os.MkdirAll(filepath.Join(d, "shared"), 0o755)
		os.Symlink("runs/7", filepath.Join(d, "current"))
	}
	return d
}

func c04WorkDir(base string, shape int) string {
	if shape == 1 {
		return base + "/current/../shared"
	}
	return base + "/runs/7/../shared/."
}

type c04Obs struct {
	rep      *probe.Report
	status   map[string]string
	ns       map[string]string
	cgroup   string
	startErr error
	refused  bool
}

var c04CgroupSeq int

func c04Launch(c c04Case, dir string) (*c04Obs, error) {
	if c.Pivot && !c.has("mnt") || c.Names && !c.has("uts") {
		return nil, vh.Infraf("unsafe case reached the launcher: %+v", c)
	}
	efd, err := probeExecFd()
	if err != nil {
		return nil, err
	}
	rp, err := newReportPipe()
	if err != nil {
		return nil, err
	}
	gr, gw, err := os.Pipe()
	if err != nil {
		rp.finish()
		return nil, vh.Infraf("pipe: %v", err)
	}
	defer gr.Close()
	defer gw.Close()
	dn := devNullFile()
	var s probe.Script
	s.Add("report:ids")
	s.Add("report:caps")
	s.Add("report:cwd")
	s.Add("report:uts")
	sentinel := s.Sys(sysNr["getppid"])
	s.Add("waitgo:4")
	s.Add("exit:0")
	tag := newTag()
	argv := s.Argv(tag, 3)
	argv[0] = "/vprobe"
	r := &forkexec.Runner{Args: argv, Env: []string{"A=1"}, ExecFile: efd, Files: []uintptr{dn.Fd(), dn.Fd(), dn.Fd(), rp.pw.Fd(), gr.Fd()},
		DropCaps: c.DropCaps, NoNewPrivs: c.NoNewPrivs, Ptrace: c.Ptrace, StopBeforeSeccomp: c.StopBefore, UnshareCgroupAfterSync: c.LateCgroup}
	for _, n := range c.NS {
		r.CloneFlags |= c04NSFlag[n]
	}
	userns := c.has("user")
	if userns {
		r.UIDMappings = []syscall.SysProcIDMap{{ContainerID: 0, HostID: 0, Size: 1}, {ContainerID: 1234, HostID: 101234, Size: 1}}
		r.GIDMappings = []syscall.SysProcIDMap{{ContainerID: 0, HostID: 0, Size: 1}, {ContainerID: 2345, HostID: 102345, Size: 1}, {ContainerID: 3456, HostID: 103456, Size: 1}}
		r.GIDMappingsEnableSetgroups = true
	}
	switch c.Cred {
	case "user":
		r.Credential = &syscall.Credential{Uid: 1234, Gid: 2345, Groups: []uint32{3456}}
	case "user-nosetgroups":
		r.Credential = &syscall.Credential{Uid: 1234, Gid: 2345, NoSetGroups: true}
	case "root":
		r.Credential = &syscall.Credential{Uid: 0, Gid: 0}
	}
	if c.Seccomp {
		f, err := buildFilter(nil, nil, libseccomp.ActionAllow)
		if err != nil {
			rp.finish()
			return nil, vh.Infraf("filter: %v", err)
		}
		r.Seccomp = f.SockFprog()
	}
	sawPid := 0
	if c.Sync {
		r.SyncFunc = func(pid int) error { sawPid = pid; return nil }
	}
	var root string
	if c.Pivot {
		root = filepath.Join(dir, "root")
		os.MkdirAll(root, 0o755)
		mb := mount.NewBuilder().WithTmpfs("w", "").WithTmpfs("tmp", "")
		if c.WDShape != 0 {
			mb.WithBind(c04DataDir(dir), "data", true)
		}
		mp, err := mb.Build()
		if err != nil {
			rp.finish()
			return nil, vh.Infraf("mount build: %v", err)
		}
		r.PivotRoot = root
		r.Mounts = mp
		r.WorkDir = "/w"
		if c.WDShape != 0 {
			r.WorkDir = c04WorkDir("/data", c.WDShape)
		}
	} else if c.WorkDir {
		r.WorkDir = dir
		if c.WDShape != 0 {
			r.WorkDir = c04WorkDir(c04DataDir(dir), c.WDShape)
		}
	}
	if c.Names {
		r.HostName, r.DomainName = "vp-host", "vp-domain"
	}
	var cgDir string
	if c.CgroupFd {
		c04CgroupSeq++
		cgDir = fmt.Sprintf("/sys/fs/cgroup/unified/verif-c04-%d-%d", os.Getpid(), c04CgroupSeq)
		if err := os.Mkdir(cgDir, 0o755); err != nil {
			rp.finish()
			return nil, vh.Infraf("cgroup2 mkdir: %v", err)
		}
		defer os.Remove(cgDir)
		cf, err := os.Open(cgDir)
		if err != nil {
			rp.finish()
			return nil, vh.Infraf("cgroup2 open: %v", err)
		}
		defer cf.Close()
		r.CgroupFd = cf.Fd()
	}

	obs := &c04Obs{}
	runtime.LockOSThread()
	defer runtime.UnlockOSThread()
	var restore func() error
	if len(c.LauncherDrop) > 0 {
		if restore, err = c04DropEffective(c.LauncherDrop); err != nil {
			rp.finish()
			return nil, vh.Infraf("capset: %v", err)
		}
	}
	pid, err := r.Start()
	if restore != nil {
		if rerr := restore(); rerr != nil {
			if err == nil {
				syscall.Kill(pid, syscall.SIGKILL)
			}
			rp.finish()
			return nil, vh.Infraf("restoring the launcher's capabilities: %v", rerr)
		}
	}
	if err != nil {
		rp.finish()
		obs.startErr, obs.refused = err, true
		return obs, nil
	}
	defer func() {
		syscall.Kill(pid, syscall.SIGKILL)
		var ws syscall.WaitStatus
		syscall.Wait4(pid, &ws, 0, nil)
		killTagged(tag)
	}()
	if c.Sync && sawPid != pid {
		rp.finish()
		return nil, vh.Violf("C04:sync-pid", "SyncFunc saw pid %d, Start returned %d", sawPid, pid)
	}
	// play the minimal tracer / continuer
	waitStop := func() (syscall.WaitStatus, error) {
		var ws syscall.WaitStatus
		deadline := time.Now().Add(10 * time.Second)
		for time.Now().Before(deadline) {
			p, err := syscall.Wait4(pid, &ws, syscall.WUNTRACED|syscall.WNOHANG, nil)
			if err != nil && err != syscall.EINTR {
				return ws, err
			}
			if p == pid {
				return ws, nil
			}
			time.Sleep(200 * time.Microsecond)
		}
		return ws, fmt.Errorf("no stop within 10s")
	}
	// with a trimmed launcher a child that Start() already handed over (ptrace / stop configurations return before the
	// credential and capability steps) can still fail one of those steps: it exits without ever running the program
	refusedLate := func(ws syscall.WaitStatus) bool {
		if len(c.LauncherDrop) == 0 || !(ws.Exited() || ws.Signaled()) {
			return false
		}
		rp.pw.Close() // the child's copy went with the child
		select {
		case <-rp.done:
		case <-time.After(5 * time.Second):
			return false
		}
		return len(rp.buf) == 0
	}
	stopFirst := c.StopBefore || (c.Seccomp && c.Ptrace)
	tracedEarly := c.Ptrace && c.Seccomp
	if stopFirst {
		ws, err := waitStop()
		if err == nil && refusedLate(ws) {
			rp.finish()
			obs.startErr, obs.refused = fmt.Errorf("child exited before exec (wait status %#x)", uint32(ws)), true
			return obs, nil
		}
		if err != nil || !ws.Stopped() {
			rp.finish()
			return nil, vh.Violf("C04:no-stop", "expected the pre-seccomp stop: ws=%#x err=%v; %+v", uint32(ws), err, c)
		}
		if tracedEarly {
			if err := syscall.PtraceDetach(pid); err != nil {
				rp.finish()
				return nil, vh.Infraf("detach: %v", err)
			}
		} else {
			syscall.Kill(pid, syscall.SIGCONT)
		}
	}
	if c.Ptrace && !c.Seccomp {
		// PTRACE_TRACEME right before execve: the exec reports a SIGTRAP stop
		ws, err := waitStop()
		if err == nil && refusedLate(ws) {
			rp.finish()
			obs.startErr, obs.refused = fmt.Errorf("child exited before exec (wait status %#x)", uint32(ws)), true
			return obs, nil
		}
		if err != nil || !ws.Stopped() || ws.StopSignal() != syscall.SIGTRAP {
			rp.finish()
			return nil, vh.Violf("C04:no-exec-trap", "expected the exec SIGTRAP of a traced child: ws=%#x err=%v; %+v", uint32(ws), err, c)
		}
		if err := syscall.PtraceDetach(pid); err != nil {
			rp.finish()
			return nil, vh.Infraf("detach: %v", err)
		}
	}
	// read the report up to the sentinel
	rp.pw.Close()
	deadline := time.Now().Add(10 * time.Second)
	for {
		select {
		case <-rp.done:
		default:
		}
		st, _ := os.ReadFile(fmt.Sprintf("/proc/%d/stat", pid))
		// the probe is blocked in read(4) when its wchan/syscall says so; simpler: poll the cmdline + a short settle
		_ = st
		if sysc, err := os.ReadFile(fmt.Sprintf("/proc/%d/syscall", pid)); err == nil && strings.HasPrefix(string(sysc), "0 0x4 ") {
			break
		}
		if len(c.LauncherDrop) > 0 {
			var ws syscall.WaitStatus
			if p, _ := syscall.Wait4(pid, &ws, syscall.WNOHANG, nil); p == pid {
				if refusedLate(ws) {
					rp.finish()
					obs.startErr, obs.refused = fmt.Errorf("child exited before exec (wait status %#x)", uint32(ws)), true
					return obs, nil
				}
				rp.pr.Close()
				<-rp.done
				return nil, vh.Violf("C04:target-not-running", "the target ended before its wait point (wait status %#x); report so far %q; %+v", uint32(ws), string(rp.buf), c)
			}
		}
		if time.Now().After(deadline) {
			rp.pr.Close()
			<-rp.done
			return nil, vh.Violf("C04:target-not-running", "the target never reached its wait point (pid %d); report so far %q; %+v", pid, string(rp.buf), c)
		}
		time.Sleep(300 * time.Microsecond)
	}
	// host view
	obs.status = map[string]string{}
	if f, err := os.Open(fmt.Sprintf("/proc/%d/status", pid)); err == nil {
		sc := bufio.NewScanner(f)
		for sc.Scan() {
			if i := strings.Index(sc.Text(), ":"); i > 0 {
				obs.status[sc.Text()[:i]] = strings.TrimSpace(sc.Text()[i+1:])
			}
		}
		f.Close()
	}
	obs.ns = map[string]string{}
	for _, k := range c04NSKinds {
		l, _ := os.Readlink(fmt.Sprintf("/proc/%d/ns/%s", pid, k))
		obs.ns[k] = l
	}
	cg, _ := os.ReadFile(fmt.Sprintf("/proc/%d/cgroup", pid))
	obs.cgroup = string(cg)
	// release the probe and collect the report
	gw.Write([]byte{1})
	var ws syscall.WaitStatus
	syscall.Wait4(pid, &ws, 0, nil)
	select {
	case <-rp.done:
	case <-time.After(5 * time.Second):
		rp.pr.Close()
		<-rp.done
	}
	rp.pr.Close()
	obs.rep = probe.Parse(rp.buf)
	if _, ok := obs.rep.R[sentinel]; !ok {
		return nil, vh.Violf("C04:no-report", "report incomplete: %q; %+v", obs.rep.Raw, c)
	}
	return obs, nil
}

func c04Check(c c04Case, o *c04Obs, own map[string]string, dir string) error {
	rep := o.rep
	viol := func(key, f string, a ...any) error {
		return vh.Violf("C04:"+key, "%s; options %+v", fmt.Sprintf(f, a...), c)
	}
	// capabilities
	if c.Cred != "none" || c.DropCaps {
		for _, k := range []string{"eff", "prm", "inh", "amb"} {
			if rep.Caps[k] != 0 {
				return viol("caps-not-empty", "capability set %s = %#x after exec although credentials/cap-dropping were requested", k, rep.Caps[k])
			}
		}
		for _, k := range []string{"CapInh", "CapPrm", "CapEff", "CapAmb"} {
			if v, _ := strconv.ParseUint(o.status[k], 16, 64); v != 0 {
				return viol("caps-not-empty", "/proc status %s = %s", k, o.status[k])
			}
		}
		if sb := rep.Caps["securebits"]; sb&3 != 3 {
			return viol("noroot-missing", "securebits = %#x: NOROOT|NOROOT_LOCKED not set, exec would hand root its privileges back", sb)
		}
	}
	// no_new_privs
	if c.NoNewPrivs || c.Seccomp {
		if rep.Caps["nnp"] != 1 || o.status["NoNewPrivs"] != "1" {
			return viol("nnp-missing", "no_new_privs = %d (status %q)", rep.Caps["nnp"], o.status["NoNewPrivs"])
		}
	}
	// seccomp iff given
	mode := o.status["Seccomp"]
	if c.Seccomp != (mode == "2") {
		return viol("seccomp-iff", "Seccomp mode %q (filters %q) with Seccomp option %v", mode, o.status["Seccomp_filters"], c.Seccomp)
	}
	if c.Seccomp && o.status["Seccomp_filters"] != "" && o.status["Seccomp_filters"] != "1" {
		return viol("seccomp-iff", "%s filters installed, want exactly 1", o.status["Seccomp_filters"])
	}
	// identities
	wantUID, wantGID := int64(0), int64(0)
	var wantGroups []int64
	checkGroups := false
	switch c.Cred {
	case "user":
		wantUID, wantGID, wantGroups, checkGroups = 1234, 2345, []int64{3456}, true
	case "user-nosetgroups":
		wantUID, wantGID = 1234, 2345
	case "root":
		wantUID, wantGID, wantGroups, checkGroups = 0, 0, nil, true
	}
	for i, v := range rep.IDs["uid"] {
		if v != wantUID {
			return viol("uid", "uid[%d] = %d want %d", i, v, wantUID)
		}
	}
	for i, v := range rep.IDs["gid"] {
		if v != wantGID {
			return viol("gid", "gid[%d] = %d want %d", i, v, wantGID)
		}
	}
	if len(rep.IDs["uid"]) != 3 || len(rep.IDs["gid"]) != 3 {
		return vh.Infraf("ids missing in report %q", rep.Raw)
	}
	if checkGroups {
		if fmt.Sprint(rep.IDs["groups"]) != fmt.Sprint(wantGroups) && !(len(rep.IDs["groups"]) == 0 && len(wantGroups) == 0) {
			return viol("groups", "supplementary groups %v want %v", rep.IDs["groups"], wantGroups)
		}
	}
	// own session
	if rep.IDs["sid"][0] != rep.IDs["pid"][0] {
		return viol("session", "sid %d != pid %d", rep.IDs["sid"][0], rep.IDs["pid"][0])
	}
	// cwd
	wantCwd := ""
	switch {
	case c.Pivot && c.WDShape != 0:
		wantCwd = "/data/runs/shared"
	case c.Pivot:
		wantCwd = "/w"
	case c.WorkDir && c.WDShape != 0:
		wantCwd = filepath.Join(c04DataDir(dir), "runs/shared")
	case c.WorkDir:
		wantCwd = dir
	}
	if wantCwd != "" && rep.Cwd != wantCwd {
		return viol("cwd", "cwd %q, the requested work dir (shape %d) is %q", rep.Cwd, c.WDShape, wantCwd)
	}
	// names
	if c.Names && (rep.Node != "vp-host" || rep.Domain != "vp-domain") {
		return viol("uts", "nodename %q domainname %q", rep.Node, rep.Domain)
	}
	// namespaces exactly for the requested flags
	for _, k := range c04NSKinds {
		if o.ns[k] == "" || own[k] == "" {
			continue
		}
		newNS := o.ns[k] != own[k]
		want := c.has(k)
		if k == "cgroup" && c.LateCgroup {
			continue // deliberately best-effort in the code
		}
		if newNS != want {
			return viol("namespace-"+k, "%s namespace %s (launcher %s): new=%v requested=%v", k, o.ns[k], own[k], newNS, want)
		}
	}
	// clone into cgroup
	inGroup := strings.Contains(o.cgroup, "verif-c04-")
	if c.CgroupFd != inGroup {
		return viol("cgroup", "/proc/pid/cgroup %q with CgroupFd=%v", strings.ReplaceAll(o.cgroup, "\n", " "), c.CgroupFd)
	}
	return nil
}

func c04Run(c c04Case, dir string, own map[string]string, rec *vh.Recorder) error {
	c = c04Normalize(c)
	o, err := c04Launch(c, dir)
	if err != nil {
		return err
	}
	nopts := len(c.NS)
	for _, b := range []bool{c.DropCaps, c.NoNewPrivs, c.Seccomp, c.Ptrace, c.StopBefore, c.Sync, c.LateCgroup, c.Pivot, c.Names, c.WorkDir, c.CgroupFd, c.Cred != "none"} {
		if b {
			nopts++
		}
	}
	nt := nopts >= 3 && (c.Cred != "none" || c.DropCaps || c.Seccomp)
	variant := fmt.Sprintf("copy(ptrace=%v,seccomp=%v,late=%v,sync=%v)", c.Ptrace, c.Seccomp, c.LateCgroup, c.Sync)
	if o.refused {
		if len(c.LauncherDrop) > 0 {
			rec.Class("launcher-effective-set-trimmed:refused", 1)
		}
		rec.Class("refused-by-kernel:"+o.startErr.Error(), 1)
		rec.Case(c, false, "refused")
		return nil
	}
	if err := c04Check(c, o, own, dir); err != nil {
		return err
	}
	classes := []string{variant, "cred=" + c.Cred, fmt.Sprintf("dropcaps=%v", c.DropCaps)}
	if c.WorkDir || c.Pivot {
		classes = append(classes, fmt.Sprintf("workdir-shape=%d(pivot=%v)", c.WDShape, c.Pivot))
	}
	if len(c.LauncherDrop) > 0 {
		classes = append(classes, "launcher-effective-set-trimmed:started")
	}
	rec.Case(c, nt, classes...)
	if nt && rec.WantSample() {
		rec.Sample(c)
	}
	return nil
}

func c04OwnNS() map[string]string {
	// the launcher must have supplementary groups of its own, otherwise a skipped setgroups() is invisible
	_ = syscall.Setgroups([]int{0, 4242, 4243})
	m := map[string]string{}
	for _, k := range c04NSKinds {
		m[k], _ = os.Readlink("/proc/self/ns/" + k)
	}
	return m
}

const c04Rule = "case = forkexec.Runner option set: Credential in {nil, uid/gid/groups, NoSetGroups, uid 0} x DropCaps x NoNewPrivs x Seccomp x Ptrace x StopBeforeSeccomp x SyncFunc x UnshareCgroupAfterSync x subsets of {user,pid,mnt,uts,ipc,net,cgroup} namespaces x pivot root+mounts x host/domain name x work dir (plain, '..' after a symlinked component, '..' and '.' without symlink) x clone-into-cgroup2 x capabilities missing from the launcher's effective set {none, SETPCAP, SETUID, random subsets}; the lattice test enumerates all 16 combinations of the four flags selecting the code copy x {Credential, DropCaps, both, neither} x {no ns, user ns, all ns}; oracle = probe self-report + /proc/<pid>/{status,ns,cgroup}; non-trivial = >=3 options incl. one of Credential/DropCaps/Seccomp"

func TestC04Lattice(t *testing.T) {
	rec := vh.NewRecorder(t, "C04", "exploration", c04Rule)
	dir, err := vh.ScratchDir("c04")
	if err != nil {
		t.Fatalf("INFRA: %v", err)
	}
	defer os.RemoveAll(dir)
	dir, _ = filepath.EvalSymlinks(dir)
	os.Chmod(dir, 0o755)
	own := c04OwnNS()
	if vh.ReplayIfRequested(t, rec, func(c c04Case) error { return c04Run(c, dir, own, rec) }) {
		return
	}
	defer rec.Write()
	n := 0
	for mask := 0; mask < 16; mask++ {
		for _, cd := range []struct {
			cred string
			drop bool
		}{{"none", false}, {"user", false}, {"none", true}, {"root", true}, {"root", false}, {"user-nosetgroups", true}} {
			for nsi, ns := range [][]string{nil, {"user"}, {"user", "mnt", "uts", "ipc", "net", "cgroup"}, {"pid", "mnt", "uts"}} {
				if !vh.Thorough() && nsi == 2 {
					// creating and tearing down network and IPC namespaces costs 10..100x the rest (more on a loaded machine):
					// the quick tier uses the heavy set for one flag mask in four and a light all-but-net/ipc set otherwise
					if mask%4 != 1 {
						ns = []string{"user", "mnt", "uts", "cgroup"}
					}
				}
				for _, extra := range []int{0, 1} {
					c := c04Case{Ptrace: mask&1 != 0, Seccomp: mask&2 != 0, LateCgroup: mask&4 != 0, Sync: mask&8 != 0, Cred: cd.cred, DropCaps: cd.drop, NS: ns}
					if extra == 1 {
						if !vh.Thorough() && (mask+len(ns))%3 != 0 {
							continue
						}
						c.NoNewPrivs, c.StopBefore, c.Pivot, c.Names, c.WorkDir, c.CgroupFd = true, mask%3 == 0, true, true, true, mask%2 == 0
						c.WDShape = mask % 3
					}
					if err := c04Run(c, dir, own, rec); err != nil {
						vh.Report(t, rec, c, err)
						if _, infra := err.(vh.Infra); infra {
							return
						}
					}
					n++
					if extra == 0 && (cd.cred != "none" || cd.drop) && (vh.Thorough() || nsi < 2) {
						// the same cell started by a launcher whose effective set lacks CAP_SETPCAP (resp. CAP_SETUID)
						for _, ld := range [][]int{{8}, {7}} {
							c.LauncherDrop = ld
							if err := c04Run(c, dir, own, rec); err != nil {
								vh.Report(t, rec, c, err)
								if _, infra := err.(vh.Infra); infra {
									return
								}
							}
							n++
						}
					}
				}
			}
		}
	}
	rec.SetExhaustive(true)
	rec.Extra("lattice_cells", n)
}

func TestC04Random(t *testing.T) {
	rec := vh.NewRecorder(t, "C04", "exploration", c04Rule)
	dir, err := vh.ScratchDir("c04r")
	if err != nil {
		t.Fatalf("INFRA: %v", err)
	}
	defer os.RemoveAll(dir)
	dir, _ = filepath.EvalSymlinks(dir)
	os.Chmod(dir, 0o755)
	own := c04OwnNS()
	vh.Check(t, rec, c04GenRandom, func(c c04Case) error { return c04Run(c, dir, own, rec) })
}

package checks

// C09 — every way a program can end is classified per the documented status table, in each runner.

import (
	"context"
	"errors"
	"fmt"
	"os"
	"path/filepath"
	"sync"
	"syscall"
	"testing"
	"time"

	"github.com/criyle/go-sandbox/container"
	"github.com/criyle/go-sandbox/pkg/seccomp"
	"github.com/criyle/go-sandbox/pkg/seccomp/libseccomp"
	"github.com/criyle/go-sandbox/runner"
	"github.com/criyle/go-sandbox/runner/ptrace"
	"github.com/criyle/go-sandbox/runner/unshare"
	"pgregory.net/rapid"

	"verif/internal/probe"
	"verif/internal/vh"
)

type c09Case struct {
	Runner   string // ptrace | unshare | container | container-after
	Ending   string // exit | raise | fault | sigsys | hostkill | noexec (the executable is missing / not executable: the runner could not do its job)
	N        int    // exit code or signal number
	Fault    string
	Children string // none | exits-first | killed | still-running | child-raises-benign | busy-child (a child the main process never reaps burns more CPU than the runner's time bound allows the program, then exits; the main process stays far below it)
	M        int    // child's exit code / signal
	// container runners: calls made on the same pooled environment right before this run (a verdict must not depend on
	// what the environment was used for before): refuse-after (SyncAfterExec, callback refuses), refuse-before,
	// cancelled (context cancelled while the program sleeps), orphans (a program that exits leaving 4 signal-ignoring children)
	Prelude []string `json:",omitempty"`
}

var c09Runners = []string{"ptrace", "unshare", "container", "container-after"}

// signals whose default action terminates (core or term)
func c09FatalSignals() []int {
	var out []int
	for s := 1; s <= 64; s++ {
		switch syscall.Signal(s) {
		case syscall.SIGCHLD, syscall.SIGCONT, syscall.SIGURG, syscall.SIGWINCH, syscall.SIGSTOP, syscall.SIGTSTP, syscall.SIGTTIN, syscall.SIGTTOU:
			continue
		}
		if s == 32 || s == 33 {
			continue // reserved by threading libraries; harmless here but kept out to mirror what programs can name
		}
		out = append(out, s)
	}
	return out
}

// the container init ignores these and SIG_IGN survives execve, so a *self-sent* instance does not terminate a
// program started in the container: those rows are not producible there (see DESIGN.md, C09).
var c09ContainerIgnored = map[int]bool{int(syscall.SIGBUS): true, int(syscall.SIGFPE): true, int(syscall.SIGSEGV): true, int(syscall.SIGHUP): true,
	int(syscall.SIGINT): true, int(syscall.SIGTERM): true, int(syscall.SIGQUIT): true, int(syscall.SIGILL): true, int(syscall.SIGTRAP): true,
	int(syscall.SIGABRT): true, int(syscall.SIGSTKFLT): true, int(syscall.SIGSYS): true}

func c09Expect(sig int) runner.Status {
	switch syscall.Signal(sig) {
	case syscall.SIGXCPU, syscall.SIGKILL:
		return runner.StatusTimeLimitExceeded
	case syscall.SIGXFSZ:
		return runner.StatusOutputLimitExceeded
	case syscall.SIGSYS:
		return runner.StatusDisallowedSyscall
	}
	return runner.StatusSignalled
}

var c09FaultSig = map[string]int{"segv": int(syscall.SIGSEGV), "fpe": int(syscall.SIGFPE), "ill": int(syscall.SIGILL), "bus": int(syscall.SIGBUS), "trap": int(syscall.SIGTRAP)}

type c09Env struct {
	env  container.Environment
	root string
}

func (e *c09Env) get() (container.Environment, error) {
	if e.env != nil {
		return e.env, nil
	}
	env, root, err := buildContainer(nil)
	if err != nil {
		return nil, vh.Infraf("container build: %v", err)
	}
	e.env, e.root = env, root
	return env, nil
}

func (e *c09Env) close() {
	if e.env != nil {
		e.env.Destroy()
		os.RemoveAll(e.root)
		e.env = nil
	}
}

// c09Prelude makes one earlier call on the environment. Its own result is judged only as far as the statement goes:
// a Runner Error carries an explanation.
func c09Prelude(env container.Environment, kind string) error {
	var s probe.Script
	o := sandboxOpts{Script: &s, Env: env, Tag: newTag(), Timeout: 20 * time.Second}
	if kind == "orphans-many" {
		o.Timeout = 120 * time.Second // 150 children with 6 MiB each: seconds when many shards do the same on a saturated machine
	}
	if kind != "orphans" && kind != "orphans-many" {
		// (not after the orphan preludes: the scan of /proc takes milliseconds, and the point of those is that the next
		// run follows at once; whatever survives them carries the check's tag and is swept by the driver)
		defer killTagged(o.Tag)
	}
	switch kind {
	case "refuse-after", "refuse-before":
		s.Add("sleep:100000")
		s.Add("exit:0")
		o.SyncAfterExec = kind == "refuse-after"
		o.SyncFunc = func(int) error { return errors.New("prelude: callback refuses") }
	case "cancelled":
		s.Add("sleep:100000")
		s.Add("exit:0")
		ctx, cancel := context.WithCancel(context.Background())
		o.Ctx = ctx
		time.AfterFunc(3*time.Millisecond, cancel)
		defer cancel()
	case "orphans", "orphans-many":
		n := 4
		if kind == "orphans-many" {
			n = 150 // reaping them takes the init a while: the next run starts meanwhile
		}
		for i := 0; i < n; i++ {
			s.Add("fork{")
			s.Add("sigign")
			if kind == "orphans-many" {
				s.Sys(sysNr["close"], 3) // not a holder of the report pipe: the host does not wait for their death
				s.Add("touch:6")         // an address space worth tearing down: killing and reaping 150 of them takes the init milliseconds
			}
			s.Add("sleep:100000")
			s.Add("}")
		}
		if kind == "orphans-many" {
			s.Add("sleep:30") // let them get there
		}
		s.Add("exit:0")
	default:
		return vh.Infraf("unknown prelude %q", kind)
	}
	tr, err := runContainer(o)
	if err != nil {
		return err
	}
	if tr.Hung {
		return vh.Violf("C09:hung", "prelude %s did not return in %v", kind, o.Timeout)
	}
	if tr.Result.Status == runner.StatusRunnerError && tr.Result.Error == "" {
		return vh.Violf("C09:runner-error-empty", "prelude %s: Runner Error without explanation", kind)
	}
	if (kind == "orphans" || kind == "orphans-many") && tr.Result.Status != runner.StatusNormal {
		return vh.Violf("C09:misclassified/children", "prelude orphans (exit 0 leaving 4 children): got %q exit %d error %q", tr.Result.Status.String(), tr.Result.ExitStatus, tr.Result.Error)
	}
	return nil
}

func c09Producible(c c09Case) bool {
	if c.Runner == "unshare" && c.Ending == "raise" {
		return false // pid 1 of a pid namespace: self-sent signals with default disposition are dropped by the kernel
	}
	if (c.Runner == "container" || c.Runner == "container-after") && c.Ending == "raise" && c09ContainerIgnored[c.N] {
		return false
	}
	if c.Runner == "unshare" && c.Children == "still-running" {
		// the child of a dying pid-namespace init is killed by the kernel; fine, but nothing special to observe
		return true
	}
	return true
}

// c09NoExec: a launch whose execve fails (N selects missing / not executable / a directory), with a seccomp filter
// configured like every real use has: nothing of a program ever ran, so the only truthful report is Runner Error with
// an explanation - not an exit status.
func c09NoExec(c c09Case, ce *c09Env, rec *vh.Recorder) error {
	target := []string{"/nonexistent-program", "/etc/passwd", "/usr"}[c.N%3]
	filter, err := buildFilter(nil, nil, libseccomp.ActionAllow)
	if err != nil {
		return vh.Infraf("filter: %v", err)
	}
	dn := devNullFile()
	files := []uintptr{dn.Fd(), dn.Fd(), dn.Fd()}
	var res runner.Result
	var hung bool
	switch c.Runner {
	case "ptrace":
		r := &ptrace.Runner{Args: []string{target}, Env: []string{"A=1"}, Files: files, Seccomp: filter, Handler: &recHandler{}, Limit: runner.Limit{TimeLimit: 5 * time.Second, MemoryLimit: 1 << 30}}
		res, hung, _ = runWithTimeout(func() runner.Result { return r.Run(context.Background()) }, 20*time.Second)
	case "unshare":
		r := &unshare.Runner{Args: []string{target}, Env: []string{"A=1"}, Files: files, Seccomp: filter, Limit: runner.Limit{TimeLimit: 5 * time.Second, MemoryLimit: 1 << 30}}
		res, hung, _ = runWithTimeout(func() runner.Result { return r.Run(context.Background()) }, 20*time.Second)
	default:
		env, err := ce.get()
		if err != nil {
			return err
		}
		p := container.ExecveParam{Args: []string{target}, Env: []string{"A=1"}, Files: files, Seccomp: filter}
		if c.Runner == "container-after" {
			p.SyncAfterExec, p.SyncFunc = true, func(int) error { return nil }
		}
		res, hung, _ = runWithTimeout(func() runner.Result { return env.Execve(context.Background(), p) }, 20*time.Second)
	}
	if hung {
		ce.close()
		return vh.Violf("C09:hung", "%+v: a launch of %s did not return in 20 s", c, target)
	}
	if res.Status != runner.StatusRunnerError {
		return vh.Violf("C09:launch-failure-reported-as-program-ending", "%+v: %s cannot be executed, nothing of a program ran, yet the result is %q exit %d (error %q) instead of Runner Error", c, target, res.Status.String(), res.ExitStatus, res.Error)
	}
	if res.Error == "" {
		return vh.Violf("C09:runner-error-empty", "%+v: Runner Error without explanation for %s", c, target)
	}
	rec.Case(c, true, "runner="+c.Runner, "ending=noexec", "noexec-target="+target)
	return nil
}

func c09Run(c c09Case, ce *c09Env, rec *vh.Recorder) error {
	if c.Ending == "noexec" {
		return c09NoExec(c, ce, rec)
	}
	if !c09Producible(c) {
		rec.Class("not-producible:"+c.Runner+"/"+c.Ending, 1)
		return nil
	}
	var s probe.Script
	// children first
	switch c.Children {
	case "exits-first":
		s.Add("fork{")
		s.Add(fmt.Sprintf("exit:%d", c.M))
		s.Add("}")
		s.Add("waitn:1")
	case "killed":
		k := s.Add("fork{")
		s.Add("sleep:100000")
		s.Add("}")
		s.Sys(sysNr["kill"], probe.Ref(k), c.M)
		s.Add("waitn:1")
	case "still-running":
		s.Add("fork{")
		s.Add("sigign")
		s.Add("sleep:100000")
		s.Add("}")
	case "child-raises-benign":
		s.Add("fork{")
		s.Add(fmt.Sprintf("raise:%d", int(syscall.SIGUSR1)))
		s.Add("}")
		s.Add("waitn:1")
	case "busy-child":
		s.Add("fork{")
		s.Add("spin:400")
		s.Add("exit:0")
		s.Add("}")
		s.Add("sleep:800") // the child's end is an event of the run while the main process is still there
	}
	var lim runner.Limit
	if c.Children == "busy-child" && c.Runner == "ptrace" {
		// (only the ptrace runner: when the pid-namespace init of the namespace runner exits, the kernel reaps its children
		// for it and their CPU time becomes part of the usage the runner measures - Time Limit Exceeded is then right)
		lim = runner.Limit{TimeLimit: 150 * time.Millisecond, MemoryLimit: 1 << 30}
	}
	var filter seccomp.Filter
	switch c.Ending {
	case "exit":
		s.Add(fmt.Sprintf("exit:%d", c.N))
	case "raise":
		s.Add(fmt.Sprintf("raise:%d", c.N))
		s.Add("sleep:50") // a signal that did not terminate would let the program get here
		s.Add("exit:77")
	case "fault":
		s.Add("fault:" + c.Fault)
		s.Add("exit:77")
	case "sigsys":
		s.Sys(sysNr["getuid"])
		s.Add("exit:77")
	case "hostkill":
		s.Add("sleep:100000")
		s.Add("exit:77")
	}
	needFilter := c.Ending == "sigsys" || c.Runner == "ptrace"
	if needFilter {
		allow := append([]string{"fork", "vfork", "clone", "kill", "rt_sigprocmask", "memfd_create", "open", "execve", "execveat"}, probeBaseAllow...)
		def := libseccomp.ActionKill
		var err error
		filter, err = buildFilter(allow, nil, def)
		if err != nil {
			return vh.Infraf("filter: %v", err)
		}
	}
	tag := newTag()
	stop := make(chan struct{})
	if c.Ending == "hostkill" {
		go func() {
			// keeps trying until the run is over (on a loaded machine the program may start many seconds after this)
			for {
				select {
				case <-stop:
					return
				default:
				}
				// the main program is the tagged process whose parent does not carry the tag (its children's parent does)
				infos := taggedInfo(tag)
				tagged := map[int]bool{}
				for _, p := range infos {
					tagged[p.Pid] = true
				}
				main := 0
				for _, p := range infos {
					if !tagged[p.PPid] && p.State != "Z" && (main == 0 || p.Pid < main) {
						main = p.Pid
					}
				}
				if main != 0 {
					// wait until it really executes the probe (not the pre-exec launcher): cmdline carries the tag only after exec
					time.Sleep(3 * time.Millisecond)
					syscall.Kill(main, syscall.SIGKILL)
					return
				}
				time.Sleep(time.Millisecond)
			}
		}()
	}
	var tr *tracedResult
	var err error
	switch c.Runner {
	case "ptrace":
		tr, err = runTraced(tracedOpts{Script: &s, Filter: filter, Handler: &recHandler{}, Tag: tag, Limit: lim})
	case "unshare":
		tr, err = runUnshare(sandboxOpts{Script: &s, Filter: filter, Tag: tag, Limit: lim})
	default:
		var env container.Environment
		env, err = ce.get()
		if err != nil {
			return err
		}
		for _, pk := range c.Prelude {
			if err := c09Prelude(env, pk); err != nil {
				if _, infra := err.(vh.Infra); !infra {
					ce.close()
				}
				return err
			}
		}
		var sync func(int) error
		if c.Runner == "container-after" {
			sync = func(int) error { return nil }
		}
		tr, err = runContainer(sandboxOpts{Script: &s, Filter: filter, Tag: tag, Env: env, SyncFunc: sync, SyncAfterExec: c.Runner == "container-after"})
	}
	close(stop)
	if err != nil {
		return err
	}
	if tr.Hung {
		live := taggedPids(tag)
		killTagged(tag)
		ce.close()
		return vh.Violf("C09:hung", "%+v: run did not return in 20s; tagged: %v", c, live)
	}
	defer killTagged(tag)
	res := tr.Result
	var want runner.Status
	wantExit := 0
	switch c.Ending {
	case "exit":
		want = runner.StatusNormal
		if c.N != 0 {
			want = runner.StatusNonzeroExitStatus
		}
		wantExit = c.N
	case "raise":
		want, wantExit = c09Expect(c.N), c.N
	case "fault":
		want, wantExit = c09Expect(c09FaultSig[c.Fault]), c09FaultSig[c.Fault]
	case "sigsys":
		want, wantExit = runner.StatusDisallowedSyscall, int(syscall.SIGSYS)
	case "hostkill":
		want, wantExit = runner.StatusTimeLimitExceeded, int(syscall.SIGKILL)
	}
	if res.Status == runner.StatusRunnerError {
		if c.Runner == "container" || c.Runner == "container-after" {
			ce.close() // do not let one broken environment poison the following cases
		}
		if res.Error == "" {
			return vh.Violf("C09:runner-error-empty", "%+v: Runner Error without explanation", c)
		}
		return vh.Violf("C09:runner-error", "%+v: Runner Error %q for a program that ends by itself", c, res.Error)
	}
	// the table defines an exit value only for exit codes and for "Signalled with the signal number"
	exitMatters := want == runner.StatusNormal || want == runner.StatusNonzeroExitStatus || want == runner.StatusSignalled
	if res.Status != want || (exitMatters && res.ExitStatus != wantExit) {
		key := "C09:misclassified"
		if c.Children != "none" {
			key = "C09:misclassified/children"
		}
		return vh.Violf(key, "%+v: got status %q exit %d (error %q), table says %q exit %d", c, res.Status.String(), res.ExitStatus, res.Error, want.String(), wantExit)
	}
	nt := c.Ending != "exit" || c.N != 0 || c.Children != "none"
	classes := []string{"runner=" + c.Runner, "ending=" + c.Ending, "children=" + c.Children}
	if c.Runner == "container" || c.Runner == "container-after" {
		for _, pk := range c.Prelude {
			classes = append(classes, "pooled-after="+pk)
		}
	}
	rec.Case(c, nt, dedup(classes)...)
	if nt && rec.WantSample() {
		rec.Sample(map[string]any{"case": c, "status": res.Status.String(), "exit": res.ExitStatus})
	}
	return nil
}

const c09Rule = "case = runner in {ptrace, namespace(unshare), container sync-before, container sync-after} x ending in {exit n (0..255), self-sent signal with default disposition (every terminating signal 1..64), real fault (SEGV/FPE/ILL/BUS/TRAP), SIGSYS from a kill-default filter, SIGKILL sent from the host, an executable that cannot be executed (missing, not executable, a directory; must be Runner Error with an explanation)} x children behaviour in {none, child exits m first, child killed by a signal, child still running and ignoring signals at exit, child dies of SIGUSR1, an un-reaped child burns 400 ms CPU under a 150 ms runner time bound while the main process sleeps} x (container runners) 0..3 earlier calls on the same pooled environment in {callback refuses after exec, callback refuses before exec, cancelled run, program that leaves 4 or 150 orphans}; oracle = README status table; " +
	"rows the kernel cannot produce (self-sent signals to a pid-namespace init; signals the container init leaves ignored) are counted as not-producible; non-trivial = non-zero exit, a signal, or children; the grid test enumerates runner x ending exhaustively (all 256 codes in the thorough tier)"

func TestC09Grid(t *testing.T) {
	rec := vh.NewRecorder(t, "C09", "exploration", c09Rule)
	ce := &c09Env{}
	defer ce.close()
	if vh.ReplayIfRequested(t, rec, func(c c09Case) error { return c09Run(c, ce, rec) }) {
		return
	}
	defer rec.Write()
	var codes []int
	if vh.Thorough() {
		for i := 0; i < 256; i++ {
			codes = append(codes, i)
		}
	} else {
		codes = []int{0, 1, 2, 3, 7, 9, 31, 64, 77, 126, 127, 128, 129, 137, 139, 159, 254, 255}
	}
	var cases []c09Case
	for _, r := range c09Runners {
		for _, n := range codes {
			cases = append(cases, c09Case{Runner: r, Ending: "exit", N: n, Children: "none"})
		}
		for _, sg := range c09FatalSignals() {
			cases = append(cases, c09Case{Runner: r, Ending: "raise", N: sg, Children: "none"})
		}
		for _, f := range []string{"segv", "fpe", "ill", "bus", "trap"} {
			cases = append(cases, c09Case{Runner: r, Ending: "fault", Fault: f, Children: "none"})
		}
		cases = append(cases, c09Case{Runner: r, Ending: "sigsys", Children: "none"})
		cases = append(cases, c09Case{Runner: r, Ending: "hostkill", Children: "none"})
		for n := 0; n < 3; n++ {
			cases = append(cases, c09Case{Runner: r, Ending: "noexec", N: n, Children: "none"})
		}
	}
	for _, c := range cases {
		if err := c09Run(c, ce, rec); err != nil {
			vh.Report(t, rec, c, err)
			if _, infra := err.(vh.Infra); infra {
				return
			}
		}
	}
	rec.SetExhaustive(true)
	rec.Extra("grid_cells", len(cases))
}

func c09GenCase() func(rt *rapid.T) c09Case {
	sigs := c09FatalSignals()
	return func(rt *rapid.T) c09Case {
		c := c09Case{Runner: rapid.SampledFrom(c09Runners).Draw(rt, "runner"),
			Ending:   rapid.SampledFrom([]string{"exit", "exit", "exit", "raise", "raise", "raise", "fault", "fault", "sigsys", "sigsys", "hostkill", "hostkill", "noexec"}).Draw(rt, "ending"),
			Children: rapid.SampledFrom([]string{"none", "none", "exits-first", "exits-first", "killed", "killed", "still-running", "still-running", "child-raises-benign", "child-raises-benign", "busy-child"}).Draw(rt, "children")}
		switch c.Ending {
		case "noexec":
			c.N = rapid.IntRange(0, 2).Draw(rt, "noexec")
		case "exit":
			c.N = rapid.IntRange(0, 255).Draw(rt, "code")
		case "raise":
			c.N = rapid.SampledFrom(sigs).Draw(rt, "sig")
		case "fault":
			c.Fault = rapid.SampledFrom([]string{"segv", "fpe", "ill", "bus", "trap"}).Draw(rt, "fault")
		}
		switch c.Children {
		case "exits-first":
			c.M = rapid.IntRange(0, 255).Draw(rt, "m")
		case "killed":
			// signals that terminate the child and are not the two the ptrace runner reads as limits for any task
			c.M = rapid.SampledFrom([]int{int(syscall.SIGKILL), int(syscall.SIGUSR1), int(syscall.SIGALRM), int(syscall.SIGPIPE), int(syscall.SIGUSR2)}).Draw(rt, "msig")
		}
		return c
	}
}

func TestC09Random(t *testing.T) {
	rec := vh.NewRecorder(t, "C09", "exploration", c09Rule)
	ce := &c09Env{}
	defer ce.close()
	gen := c09GenCase()
	vh.Check(t, rec, func(rt *rapid.T) c09Case {
		c := gen(rt)
		if c.Runner == "container" || c.Runner == "container-after" {
			for n := rapid.SampledFrom([]int{0, 0, 1, 2, 3}).Draw(rt, "npre"); n > 0; n-- {
				c.Prelude = append(c.Prelude, rapid.SampledFrom([]string{"refuse-after", "refuse-before", "cancelled", "orphans", "orphans", "orphans-many"}).Draw(rt, "prelude"))
			}
		}
		return c
	}, func(c c09Case) error { return c09Run(c, ce, rec) })
	_ = filepath.Join
}

// ---- several runs at the same time in one process ---------------------------------------------------------------

type c09ConcCase struct {
	Runs    []c09Case
	Stagger []int // start delay of each run in units of 100 us
}

func TestC09Concurrent(t *testing.T) {
	rec := vh.NewRecorder(t, "C09", "exploration", "concurrent part: 2..6 generated (runner, ending, children) cases run at the same time in one process (each ptrace run on its own goroutine, each container case on an environment of its own), staggered by 0..2 ms; each result is judged by the same table as when run alone; non-trivial = >=2 runs of >=2 runner kinds, one of them a ptrace run")
	rec.Assume("which run's events interleave with which is the OS scheduler's; repeated cases sample it")
	const slots = 6
	envs := make([]*c09Env, slots)
	for i := range envs {
		envs[i] = &c09Env{}
	}
	defer func() {
		for _, e := range envs {
			e.close()
		}
	}()
	gen := c09GenCase()
	vh.Check(t, rec, func(rt *rapid.T) c09ConcCase {
		var c c09ConcCase
		n := rapid.IntRange(2, slots).Draw(rt, "nruns")
		for i := 0; i < n; i++ {
			r := gen(rt)
			if i == 0 {
				r.Runner = "ptrace"
			}
			if r.Ending == "hostkill" && rapid.Bool().Draw(rt, "nohostkill") {
				r.Ending, r.N = "exit", 20 // keep most runs short-lived and self-ending
			}
			c.Runs = append(c.Runs, r)
			c.Stagger = append(c.Stagger, rapid.IntRange(0, 20).Draw(rt, "stagger"))
		}
		return c
	}, func(c c09ConcCase) error {
		sub := vh.NewDetachedRecorder("C09")
		errs := make([]error, len(c.Runs))
		var wg sync.WaitGroup
		start := make(chan struct{})
		for i := range c.Runs {
			wg.Add(1)
			go func(i int) {
				defer wg.Done()
				<-start
				if i < len(c.Stagger) {
					time.Sleep(time.Duration(c.Stagger[i]) * 100 * time.Microsecond)
				}
				errs[i] = c09Run(c.Runs[i], envs[i%slots], sub)
			}(i)
		}
		close(start)
		wg.Wait()
		kinds := map[string]bool{}
		for _, r := range c.Runs {
			kinds[r.Runner] = true
		}
		rec.Case(c, len(kinds) >= 2, fmt.Sprintf("concurrent-runs=%d", len(c.Runs)), fmt.Sprintf("runner-kinds=%d", len(kinds)))
		rec.Evals(len(c.Runs))
		if rec.WantSample() && len(c.Runs) <= 3 {
			rec.Sample(c)
		}
		for i, e := range errs {
			if e != nil {
				if v, ok := e.(*vh.Violation); ok {
					v.Key += "/concurrent"
					v.Detail = fmt.Sprintf("run %d of %d concurrent runs: %s", i, len(c.Runs), v.Detail)
				}
				return e
			}
		}
		return nil
	})
}

package checks

import (
	"context"
	"fmt"
	"io"
	"os"
	"strconv"
	"strings"
	"sync"
	"sync/atomic"
	"syscall"
	"testing"
	"time"
	"unsafe"

	"github.com/criyle/go-sandbox/container"
	"github.com/criyle/go-sandbox/pkg/mount"
	"github.com/criyle/go-sandbox/pkg/rlimit"
	"github.com/criyle/go-sandbox/pkg/seccomp"
	"github.com/criyle/go-sandbox/pkg/seccomp/libseccomp"
	"github.com/criyle/go-sandbox/ptracer"
	"github.com/criyle/go-sandbox/runner"
	"github.com/criyle/go-sandbox/runner/ptrace"
	"github.com/criyle/go-sandbox/runner/unshare"

	"verif/internal/probe"
	"verif/internal/vh"
)

func init() {
	// the test binary is the container init when re-executed as "container_init" (pid 1 of a new pid namespace)
	_ = container.Init()
}

// helper roles of the multi-call test binary: VERIF_ROLE=<name> runs roles[name] instead of the tests
var roles = map[string]func(){}

func TestMain(m *testing.M) {
	if r := os.Getenv("VERIF_ROLE"); r != "" {
		if f, ok := roles[r]; ok {
			f()
			os.Exit(0)
		}
		fmt.Fprintf(os.Stderr, "unknown role %q\n", r)
		os.Exit(97)
	}
	os.Exit(m.Run())
}

var tagCounter atomic.Int64

// newTag returns a unique tag; every sandboxed program carries it in argv so survivors are findable.
func newTag() string {
	base := vh.Getenv("VERIF_TAG", "vptag-manual")
	return fmt.Sprintf("%s-%d-%d", base, os.Getpid(), tagCounter.Add(1))
}

// taggedPids scans /proc for processes whose cmdline contains tag. Returns pid -> state letter.
func taggedPids(tag string) map[int]string {
	out := map[int]string{}
	ents, _ := os.ReadDir("/proc")
	for _, e := range ents {
		pid, err := strconv.Atoi(e.Name())
		if err != nil {
			continue
		}
		b, err := os.ReadFile("/proc/" + e.Name() + "/cmdline")
		if err != nil || !strings.Contains(string(b), tag) {
			continue
		}
		st, err := os.ReadFile("/proc/" + e.Name() + "/stat")
		state := "?"
		if err == nil {
			if i := strings.LastIndex(string(st), ") "); i >= 0 && i+2 < len(st) {
				state = string(st[i+2])
			}
		}
		out[pid] = state
	}
	return out
}

// liveTagged returns tagged processes that are not zombies.
func liveTagged(tag string) []int {
	var l []int
	for p, s := range taggedPids(tag) {
		if s != "Z" && s != "X" {
			l = append(l, p)
		}
	}
	return l
}

func killTagged(tag string) {
	for p := range taggedPids(tag) {
		_ = syscall.Kill(p, syscall.SIGKILL)
	}
}

// sysNr: the amd64 numbers the scripts use (from the uapi header table).
var sysNr = map[string]int{
	"read": 0, "write": 1, "open": 2, "close": 3, "stat": 4, "fstat": 5, "lstat": 6, "lseek": 8, "mmap": 9, "mprotect": 10, "munmap": 11,
	"rt_sigaction": 13, "rt_sigprocmask": 14, "access": 21, "sched_yield": 24, "dup": 32, "dup2": 33, "pause": 34, "nanosleep": 35, "getpid": 39,
	"clone": 56, "fork": 57, "vfork": 58, "execve": 59, "exit": 60, "wait4": 61, "kill": 62, "uname": 63, "fcntl": 72, "truncate": 76, "getcwd": 79, "chdir": 80,
	"fchdir": 81, "rename": 82, "mkdir": 83, "rmdir": 84, "creat": 85, "link": 86, "unlink": 87, "symlink": 88, "readlink": 89, "chmod": 90,
	"getuid": 102, "getgid": 104, "setpgid": 109, "getppid": 110, "setsid": 112, "getgroups": 115, "getresuid": 118, "getresgid": 120, "getpgid": 121, "getsid": 124, "getpgrp": 111, "capget": 125,
	"getpriority": 140, "prctl": 157, "gettid": 186, "tkill": 200, "getdents64": 217, "clock_gettime": 228, "exit_group": 231, "tgkill": 234,
	"openat": 257, "mkdirat": 258, "mknodat": 259, "newfstatat": 262, "unlinkat": 263, "renameat": 264, "linkat": 265, "symlinkat": 266, "readlinkat": 267,
	"fchmodat": 268, "faccessat": 269, "dup3": 292, "prlimit64": 302, "renameat2": 316, "memfd_create": 319, "execveat": 322, "statx": 332, "openat2": 437, "faccessat2": 439, "fchmodat2": 452,
	"getrlimit": 97, "socket": 41, "getegid": 108, "geteuid": 107, "setuid": 105, "umask": 95, "sync": 162, "getrusage": 98, "times": 100, "alarm": 37, "sysinfo": 99,
}

// probeBaseAllow is what vprobe itself needs for its own machinery.
var probeBaseAllow = []string{"read", "write", "close", "mmap", "mprotect", "munmap", "exit", "exit_group", "clock_gettime", "nanosleep",
	"getpid", "getppid", "gettid", "fstat", "fcntl", "lseek", "rt_sigaction", "wait4", "dup2", "dup3", "dup", "restart_syscall", "rt_sigreturn"}

func buildFilter(allow, trace []string, def libseccomp.Action) (seccomp.Filter, error) {
	b := libseccomp.Builder{Allow: allow, Trace: trace, Default: def}
	return b.Build()
}

// ---- recording handler ---------------------------------------------------------------------

type hRecord struct {
	Class string // read | write | stat | syscall
	Arg   string
	Op    int // marker count at the time of the call
}

// recHandler records every callback and answers through decide (nil => allow).
type recHandler struct {
	mu      sync.Mutex
	Records []hRecord
	markers int
	Marker  string // name of the marker syscall (counted, always allowed)
	Decide  func(rec hRecord) ptracer.TraceAction
}

func (h *recHandler) rec(class, arg string) ptracer.TraceAction {
	h.mu.Lock()
	if class == "syscall" && arg == h.Marker && h.Marker != "" {
		h.markers++
		h.mu.Unlock()
		return ptracer.TraceAllow
	}
	r := hRecord{Class: class, Arg: arg, Op: h.markers}
	h.Records = append(h.Records, r)
	d := h.Decide
	h.mu.Unlock()
	if d == nil {
		return ptracer.TraceAllow
	}
	return d(r)
}
func (h *recHandler) CheckRead(p string) ptracer.TraceAction    { return h.rec("read", p) }
func (h *recHandler) CheckWrite(p string) ptracer.TraceAction   { return h.rec("write", p) }
func (h *recHandler) CheckStat(p string) ptracer.TraceAction    { return h.rec("stat", p) }
func (h *recHandler) CheckSyscall(n string) ptracer.TraceAction { return h.rec("syscall", n) }

// ---- traced run ------------------------------------------------------------------------------

type tracedOpts struct {
	Script   *probe.Script
	Filter   seccomp.Filter
	Handler  ptrace.Handler
	WorkDir  string
	Limit    runner.Limit
	Ctx      context.Context
	SyncFunc func(pid int) error
	Extra    []*os.File // descriptors 4.. of the probe
	Timeout  time.Duration
	Tag      string
	RLimits  []rlimit.RLimit
	Stdout   *os.File // fd 1 of the probe (default /dev/null)
}

type tracedResult struct {
	Result  runner.Result
	Report  *probe.Report
	Hung    bool
	Elapsed time.Duration
	Tag     string
}

// runTraced runs a vprobe script under the real ptrace.Runner. fd 3 of the probe is the report pipe.
func runTraced(o tracedOpts) (*tracedResult, error) {
	pr, pw, err := os.Pipe()
	if err != nil {
		return nil, vh.Infraf("pipe: %v", err)
	}
	devnull, err := os.OpenFile("/dev/null", os.O_RDWR, 0)
	if err != nil {
		pr.Close()
		pw.Close()
		return nil, vh.Infraf("devnull: %v", err)
	}
	defer devnull.Close()
	tag := o.Tag
	if tag == "" {
		tag = newTag()
	}
	files := []uintptr{devnull.Fd(), devnull.Fd(), devnull.Fd(), pw.Fd()}
	if o.Stdout != nil {
		files[1] = o.Stdout.Fd()
	}
	for _, f := range o.Extra {
		files = append(files, f.Fd())
	}
	lim := o.Limit
	if lim.TimeLimit == 0 {
		lim.TimeLimit = 30 * time.Second
	}
	if lim.MemoryLimit == 0 {
		lim.MemoryLimit = 1 << 30
	}
	r := &ptrace.Runner{
		RLimits:  o.RLimits,
		Args:     o.Script.Argv(tag, 3),
		Env:      []string{"VP=1"},
		WorkDir:  o.WorkDir,
		Files:    files,
		Limit:    lim,
		Seccomp:  o.Filter,
		Handler:  o.Handler,
		SyncFunc: o.SyncFunc,

		ShowDetails: os.Getenv("VERIF_DEBUG") != "",
	}
	r.Args[0] = probe.Path()
	ctx := o.Ctx
	if ctx == nil {
		ctx = context.Background()
	}
	var buf []byte
	rdDone := make(chan struct{})
	go func() {
		buf, _ = io.ReadAll(pr)
		close(rdDone)
	}()
	resCh := make(chan runner.Result, 1)
	start := time.Now()
	go func() { resCh <- r.Run(ctx) }()
	to := o.Timeout
	if to == 0 {
		to = 20 * time.Second
	}
	tr := &tracedResult{Tag: tag}
	select {
	case tr.Result = <-resCh:
	case <-time.After(to):
		tr.Hung = true
	}
	tr.Elapsed = time.Since(start)
	pw.Close()
	if tr.Hung {
		// leave the diagnosis to the caller (it inspects the tagged processes), then it must call killTagged
		pr.Close()
		return tr, nil
	}
	select {
	case <-rdDone:
	case <-time.After(5 * time.Second):
		// some process still holds the report pipe: a survivor; the caller's residue checks will see it
		pr.Close()
		<-rdDone
	}
	pr.Close()
	tr.Report = probe.Parse(buf)
	return tr, nil
}

// ---- namespace (unshare) run ------------------------------------------------------------------

type sandboxOpts struct {
	Script   *probe.Script
	Filter   seccomp.Filter
	Limit    runner.Limit
	RLimits  []rlimit.RLimit
	Ctx      context.Context
	SyncFunc func(pid int) error
	Extra    []*os.File
	Timeout  time.Duration
	Tag      string
	Stdout   *os.File
	// unshare only
	Root                 string
	Mounts               []mount.SyscallParams
	WorkDir              string
	HostName, DomainName string
	// container only
	Env           container.Environment
	SyncAfterExec bool
}

type reportPipe struct {
	pr, pw *os.File
	buf    []byte
	done   chan struct{}
}

func newReportPipe() (*reportPipe, error) {
	pr, pw, err := os.Pipe()
	if err != nil {
		return nil, vh.Infraf("pipe: %v", err)
	}
	rp := &reportPipe{pr: pr, pw: pw, done: make(chan struct{})}
	go func() {
		rp.buf, _ = io.ReadAll(pr)
		close(rp.done)
	}()
	return rp, nil
}

// finish closes the write end and collects what the program(s) wrote.
func (rp *reportPipe) finish() *probe.Report {
	rp.pw.Close()
	select {
	case <-rp.done:
	case <-time.After(5 * time.Second):
		rp.pr.Close()
		<-rp.done
	}
	rp.pr.Close()
	return probe.Parse(rp.buf)
}

var (
	probeFileOnce sync.Once
	probeFile     *os.File
)

// probeExecFd returns a long-lived read-only descriptor of bin/vprobe for ExecFile launches.
func probeExecFd() (uintptr, error) {
	var err error
	probeFileOnce.Do(func() { probeFile, err = os.Open(probe.Path()) })
	if probeFile == nil {
		return 0, vh.Infraf("open vprobe: %v", err)
	}
	return probeFile.Fd(), nil
}

func runWithTimeout(f func() runner.Result, to time.Duration) (runner.Result, bool, time.Duration) {
	if to == 0 {
		to = 20 * time.Second
	}
	ch := make(chan runner.Result, 1)
	start := time.Now()
	go func() { ch <- f() }()
	select {
	case r := <-ch:
		return r, false, time.Since(start)
	case <-time.After(to):
		return runner.Result{}, true, time.Since(start)
	}
}

// runUnshare runs a vprobe script under the real unshare.Runner (probe started through ExecFile).
func runUnshare(o sandboxOpts) (*tracedResult, error) {
	rp, err := newReportPipe()
	if err != nil {
		return nil, err
	}
	devnull, err := os.OpenFile("/dev/null", os.O_RDWR, 0)
	if err != nil {
		rp.finish()
		return nil, vh.Infraf("devnull: %v", err)
	}
	defer devnull.Close()
	efd, err := probeExecFd()
	if err != nil {
		rp.finish()
		return nil, err
	}
	tag := o.Tag
	if tag == "" {
		tag = newTag()
	}
	files := []uintptr{devnull.Fd(), devnull.Fd(), devnull.Fd(), rp.pw.Fd()}
	if o.Stdout != nil {
		files[1] = o.Stdout.Fd()
	}
	for _, f := range o.Extra {
		files = append(files, f.Fd())
	}
	lim := o.Limit
	if lim.TimeLimit == 0 {
		lim.TimeLimit = 30 * time.Second
	}
	if lim.MemoryLimit == 0 {
		lim.MemoryLimit = 1 << 30
	}
	if o.Filter == nil {
		// unshare.Runner (like ptrace.Runner) dereferences its filter unconditionally: a filter is a precondition
		o.Filter, err = buildFilter(nil, nil, libseccomp.ActionAllow)
		if err != nil {
			rp.finish()
			return nil, vh.Infraf("filter: %v", err)
		}
	}
	r := &unshare.Runner{
		Args: o.Script.Argv(tag, 3), Env: []string{"VP=1"}, ExecFile: efd, WorkDir: o.WorkDir, Files: files, RLimits: o.RLimits, Limit: lim,
		Seccomp: o.Filter, Root: o.Root, Mounts: o.Mounts, HostName: o.HostName, DomainName: o.DomainName, SyncFunc: o.SyncFunc,
	}
	ctx := o.Ctx
	if ctx == nil {
		ctx = context.Background()
	}
	tr := &tracedResult{Tag: tag}
	tr.Result, tr.Hung, tr.Elapsed = runWithTimeout(func() runner.Result { return r.Run(ctx) }, o.Timeout)
	if os.Getenv("VERIF_DEBUG") != "" && strings.Contains(tr.Result.Error, "permission denied") {
		l, _ := os.Readlink(fmt.Sprintf("/proc/self/fd/%d", efd))
		var st syscall.Stat_t
		e := syscall.Fstat(int(efd), &st)
		fmt.Printf("DEBUG EACCES: efd=%d -> %q mode=%o fstat err=%v files=%v rlimits=%v\n", efd, l, st.Mode, e, files, o.RLimits)
	}
	if tr.Hung {
		rp.pw.Close()
		rp.pr.Close()
		return tr, nil
	}
	tr.Report = rp.finish()
	return tr, nil
}

// runContainer runs a vprobe script with Environment.Execve (probe passed as ExecFile).
func runContainer(o sandboxOpts) (*tracedResult, error) {
	rp, err := newReportPipe()
	if err != nil {
		return nil, err
	}
	devnull, err := os.OpenFile("/dev/null", os.O_RDWR, 0)
	if err != nil {
		rp.finish()
		return nil, vh.Infraf("devnull: %v", err)
	}
	defer devnull.Close()
	efd, err := probeExecFd()
	if err != nil {
		rp.finish()
		return nil, err
	}
	tag := o.Tag
	if tag == "" {
		tag = newTag()
	}
	files := []uintptr{devnull.Fd(), devnull.Fd(), devnull.Fd(), rp.pw.Fd()}
	if o.Stdout != nil {
		files[1] = o.Stdout.Fd()
	}
	for _, f := range o.Extra {
		files = append(files, f.Fd())
	}
	argv := o.Script.Argv(tag, 3)
	argv[0] = "/vprobe" // not looked up in PATH (the executable is ExecFile); a bare name would be
	p := container.ExecveParam{Args: argv, Env: []string{"VP=1"}, Files: files, ExecFile: efd, RLimits: o.RLimits, Seccomp: o.Filter,
		SyncFunc: o.SyncFunc, SyncAfterExec: o.SyncAfterExec}
	ctx := o.Ctx
	if ctx == nil {
		ctx = context.Background()
	}
	tr := &tracedResult{Tag: tag}
	tr.Result, tr.Hung, tr.Elapsed = runWithTimeout(func() runner.Result { return o.Env.Execve(ctx, p) }, o.Timeout)
	if tr.Hung {
		rp.pw.Close()
		rp.pr.Close()
		return tr, nil
	}
	tr.Report = rp.finish()
	return tr, nil
}

// containerStderr collects what container inits print (container_exit lines) for diagnostics.
type lockedBuf struct {
	mu sync.Mutex
	b  []byte
}

func (l *lockedBuf) Write(p []byte) (int, error) {
	l.mu.Lock()
	l.b = append(l.b, p...)
	if len(l.b) > 1<<16 {
		l.b = l.b[len(l.b)-1<<15:]
	}
	l.mu.Unlock()
	return len(p), nil
}
func (l *lockedBuf) String() string { l.mu.Lock(); defer l.mu.Unlock(); return string(l.b) }

// buildContainer builds a default environment under a fresh root directory. stderr of the init goes to a pipe-backed
// *os.File so that Destroy leaves no descriptor to the garbage collector.
func buildContainer(b *container.Builder) (container.Environment, string, error) {
	root, err := vh.ScratchDir("croot")
	if err != nil {
		return nil, "", vh.Infraf("%v", err)
	}
	if b == nil {
		b = &container.Builder{}
	}
	b.Root = root
	if b.Stderr == nil {
		b.Stderr = devNullFile()
	}
	env, err := b.Build()
	for try := 0; err != nil && try < 6 && strings.Contains(err.Error(), "i/o timeout"); try++ {
		// Build gives the fresh init 3 s to answer its first ping and its configuration; on a saturated machine that can be too short.
		// Nothing of the failed attempt is kept (Build tears it down), so trying again is not a change of subject.
		time.Sleep(time.Duration(try+1) * 500 * time.Millisecond)
		env, err = b.Build()
	}
	if err != nil {
		os.RemoveAll(root)
		return nil, "", err
	}
	return env, root, nil
}

var (
	devNullOnce sync.Once
	devNullF    *os.File
)

func devNullFile() *os.File {
	devNullOnce.Do(func() { devNullF, _ = os.OpenFile("/dev/null", os.O_RDWR, 0) })
	return devNullF
}

func unixPrlimit(pid, res int, newl, old *syscall.Rlimit) error {
	_, _, e := syscall.RawSyscall6(syscall.SYS_PRLIMIT64, uintptr(pid), uintptr(res), uintptr(unsafe.Pointer(newl)), uintptr(unsafe.Pointer(old)), 0, 0)
	if e != 0 {
		return e
	}
	return nil
}

//go:build verif

package checks

// C13 — pooled containers carry no state between runs; sealed executables are immutable.

import (
	"bytes"
	"context"
	"errors"
	"fmt"
	"io"
	"os"
	"os/signal"
	"strings"
	"syscall"
	"testing"
	"time"

	"github.com/criyle/go-sandbox/container"
	"github.com/criyle/go-sandbox/pkg/memfd"
	"github.com/criyle/go-sandbox/pkg/mount"
	"github.com/criyle/go-sandbox/runner"
	"golang.org/x/sys/unix"
	"pgregory.net/rapid"

	"verif/internal/probe"
	"verif/internal/vh"
)

type c13Entry struct {
	Kind string // file dir dir000 dotfile weirdname symlink-dangling symlink-root fifo socket hardlink deep many heldopen
	N    int
}

type c13Program struct {
	PerMount [][]c13Entry // entries created in each tmpfs
	// How the run goes: "" (runs to its end) | after-exec (synchronised after exec) | after-exec-syncfail (the callback
	// refuses once the program has made its files) | before-exec-syncfail | cancelled (once the files are there)
	How string
}

type c13Case struct {
	Mounts   []string // tmpfs targets
	Cred     bool
	Programs []c13Program
	// the container also has a read-only bind /data with a masked directory /data/private (and /usr/share masked);
	// every program additionally tries to create entries in every directory it can name (root, binds, masked
	// directories): wherever that succeeds is a writable mount, and Reset has to empty it
	Masks bool `json:",omitempty"`
	// how many times the sequence (programs, Reset, check) is gone through on the same container (0 = once)
	Rounds int `json:",omitempty"`
	// the container init runs with RLIMIT_NOFILE 64 and the first program builds a 200-level directory chain in the first
	// tmpfs: removing it needs a descriptor per level, so Reset cannot empty that mount - it has to say so
	LowNoFile bool `json:",omitempty"`
}

// directories every program sprays (besides the tmpfs mounts)
var c13SprayDirs = []string{"/", "/usr", "/usr/share", "/data", "/data/private", "/data/private/sub"}

var c13Kinds = []string{"file", "dir", "dir000", "dotfile", "weirdname", "symlink-dangling", "symlink-root", "fifo", "socket", "hardlink", "deep", "many", "heldopen", "nested-dirs"}

func c13GenCase(rt *rapid.T) c13Case {
	c := c13Case{Cred: rapid.Bool().Draw(rt, "cred"), Masks: rapid.IntRange(0, 2).Draw(rt, "masks") == 0, Rounds: rapid.SampledFrom([]int{1, 1, 2, 3}).Draw(rt, "rounds")}
	all := []string{"w", "tmp", "scratch/inner"}
	nm := rapid.IntRange(1, 3).Draw(rt, "nmounts")
	c.Mounts = all[:nm]
	np := rapid.IntRange(1, 3).Draw(rt, "nprogs")
	for p := 0; p < np; p++ {
		var prog c13Program
		for range c.Mounts {
			var es []c13Entry
			ne := rapid.IntRange(0, 6).Draw(rt, "nentries")
			for i := 0; i < ne; i++ {
				k := rapid.SampledFrom(c13Kinds).Draw(rt, "kind")
				e := c13Entry{Kind: k}
				switch k {
				case "deep":
					e.N = rapid.SampledFrom([]int{5, 25, 60}).Draw(rt, "depth")
				case "many":
					e.N = rapid.SampledFrom([]int{10, 300, 2000}).Draw(rt, "count")
				}
				es = append(es, e)
			}
			prog.PerMount = append(prog.PerMount, es)
		}
		prog.How = rapid.SampledFrom([]string{"", "", "", "after-exec", "after-exec-syncfail", "after-exec-syncfail", "before-exec-syncfail", "cancelled"}).Draw(rt, "how")
		c.Programs = append(c.Programs, prog)
	}
	if rapid.IntRange(0, 5).Draw(rt, "lownofile") == 0 {
		c.LowNoFile = true
		if len(c.Mounts) < 2 {
			c.Mounts = all[:2]
			for i := range c.Programs {
				for len(c.Programs[i].PerMount) < 2 {
					c.Programs[i].PerMount = append(c.Programs[i].PerMount, nil)
				}
			}
		}
		c.Programs[0].PerMount[0] = append(c.Programs[0].PerMount[0], c13Entry{Kind: "deep", N: 200})
		c.Programs[0].How = ""
	}
	return c
}

type c13Cred struct{}

func (c13Cred) Get() syscall.Credential { return syscall.Credential{Uid: 10000, Gid: 10000} }

// c13Script builds the program that creates the entries; names are made unique by (program, index).
func c13Script(c c13Case, pi int) *probe.Script {
	var s probe.Script
	at := uint64(0xffffffffffffff9c)
	prog := c.Programs[pi]
	for mi, target := range c.Mounts {
		root := "/" + target
		s.Sys(sysNr["chdir"], s.Str(root))
		for ei, e := range prog.PerMount[mi] {
			name := fmt.Sprintf("e%d_%d", pi, ei)
			switch e.Kind {
			case "file":
				s.Sys(sysNr["openat"], at, s.Str(name), syscall.O_CREAT|syscall.O_WRONLY, 0o600)
			case "dir":
				s.Sys(sysNr["mkdirat"], at, s.Str(name), 0o755)
				s.Sys(sysNr["openat"], at, s.Str(name+"/inner"), syscall.O_CREAT|syscall.O_WRONLY, 0o644)
			case "dir000":
				s.Sys(sysNr["mkdirat"], at, s.Str(name), 0o755)
				s.Sys(sysNr["openat"], at, s.Str(name+"/inner"), syscall.O_CREAT|syscall.O_WRONLY, 0o000)
				s.Sys(sysNr["mkdirat"], at, s.Str(name+"/sub"), 0o000)
				s.Sys(sysNr["fchmodat"], at, s.Str(name), 0o000)
			case "dotfile":
				s.Sys(sysNr["openat"], at, s.Str("."+name), syscall.O_CREAT|syscall.O_WRONLY, 0o644)
				s.Sys(sysNr["mkdirat"], at, s.Str("..."+name), 0o755)
			case "weirdname":
				s.Sys(sysNr["openat"], at, s.Str(name+" with space\nand newline\t*?[]"), syscall.O_CREAT|syscall.O_WRONLY, 0o644)
				s.Sys(sysNr["openat"], at, s.Str("-rf "+name), syscall.O_CREAT|syscall.O_WRONLY, 0o644)
			case "symlink-dangling":
				s.Sys(sysNr["symlinkat"], s.Str("/nonexistent/target"), at, s.Str(name))
			case "symlink-root":
				s.Sys(sysNr["symlinkat"], s.Str("/"), at, s.Str(name))
				s.Sys(sysNr["symlinkat"], s.Str("/usr"), at, s.Str(name+"u"))
				s.Sys(sysNr["symlinkat"], s.Str(".."), at, s.Str(name+"p"))
			case "fifo":
				s.Sys(sysNr["mknodat"], at, s.Str(name), 0o010644, 0)
			case "socket":
				s.Sys(sysNr["mknodat"], at, s.Str(name), 0o140644, 0)
			case "hardlink":
				s.Sys(sysNr["openat"], at, s.Str(name), syscall.O_CREAT|syscall.O_WRONLY, 0o644)
				s.Sys(sysNr["mkdirat"], at, s.Str(name+"d"), 0o755)
				s.Sys(sysNr["linkat"], at, s.Str(name), at, s.Str(name+"d/link"), 0)
			case "nested-dirs":
				s.Sys(sysNr["mkdirat"], at, s.Str(name), 0o755)
				s.Sys(sysNr["mkdirat"], at, s.Str(name+"/a"), 0o700)
				s.Sys(sysNr["mkdirat"], at, s.Str(name+"/a/b"), 0o500)
				s.Sys(sysNr["openat"], at, s.Str(name+"/a/b/f"), syscall.O_CREAT|syscall.O_WRONLY, 0o400)
			case "deep":
				comp := name + strings.Repeat("x", 80)
				for d := 0; d < e.N; d++ {
					s.Sys(sysNr["mkdirat"], at, s.Str(comp), 0o755)
					s.Sys(sysNr["chdir"], s.Str(comp))
				}
				s.Sys(sysNr["openat"], at, s.Str("bottom"), syscall.O_CREAT|syscall.O_WRONLY, 0o644)
				s.Sys(sysNr["chdir"], s.Str(root))
			case "many":
				s.Sys(sysNr["mkdirat"], at, s.Str(name), 0o755)
				s.Sys(sysNr["chdir"], s.Str(name))
				s.Add(fmt.Sprintf("mkmany:%d", e.N))
				s.Sys(sysNr["chdir"], s.Str(root))
			case "heldopen":
				s.Add("daemon{")
				k := s.Sys(sysNr["openat"], at, s.Str(name), syscall.O_CREAT|syscall.O_RDWR, 0o644)
				s.Sys(sysNr["unlinkat"], at, s.Str(name+"-never"), 0)
				_ = k
				s.Add("sleep:600000")
				s.Add("}")
				s.Add("sleep:3")
			}
		}
	}
	if c.Masks {
		for _, d := range c13SprayDirs {
			s.Sys(sysNr["openat"], at, s.Str(fmt.Sprintf("%s/spray_f%d", d, pi)), syscall.O_CREAT|syscall.O_WRONLY, 0o644)
			s.Sys(sysNr["mkdirat"], at, s.Str(fmt.Sprintf("%s/spray_d%d", d, pi)), 0o755)
			s.Sys(sysNr["symlinkat"], s.Str("/"), at, s.Str(fmt.Sprintf("%s/spray_l%d", d, pi)))
		}
	}
	if prog.How == "after-exec-syncfail" || prog.How == "cancelled" {
		// tell the host that everything is in place, then stay around to be stopped
		s.Sys(sysNr["chdir"], s.Str("/"+c.Mounts[0]))
		s.Sys(sysNr["openat"], at, s.Str(fmt.Sprintf("zz-sentinel-%d", pi)), syscall.O_CREAT|syscall.O_WRONLY, 0o644)
		s.Add("sleep:20000")
	}
	s.Add("exit:0")
	return &s
}

func c13Run(c c13Case, rec *vh.Recorder) error {
	mb := mount.NewBuilder()
	for _, t := range c.Mounts {
		mb.WithTmpfs(t, "")
	}
	mb.WithBind("/usr", "usr", true)
	var dataDir string
	if c.Masks {
		var err error
		if dataDir, err = vh.ScratchDir("c13data"); err != nil {
			return vh.Infraf("scratch: %v", err)
		}
		defer os.RemoveAll(dataDir)
		os.Chmod(dataDir, 0o755)
		os.MkdirAll(dataDir+"/private/sub", 0o755)
		os.WriteFile(dataDir+"/private/secret", []byte("masked"), 0o644)
		os.WriteFile(dataDir+"/public", []byte("public"), 0o644)
		mb.WithBind(dataDir, "data", true)
	}
	b := &container.Builder{Mounts: mb.Mounts, WorkDir: "/" + c.Mounts[0]}
	if c.Masks {
		b.MaskPaths = []string{"/data/private", "/usr/share", "/nonexistent-mask"}
	}
	if c.Cred {
		b.CredGenerator = c13Cred{}
	}
	env, root, err := buildContainer(b)
	if err != nil {
		return vh.Infraf("build: %v", err)
	}
	defer os.RemoveAll(root)
	defer env.Destroy()
	initPid := container.VerifInitPid(env)
	desc := fmt.Sprintf("%+v", c)
	if c.LowNoFile {
		lim := syscall.Rlimit{Cur: 64, Max: 64}
		if err := unixPrlimit(initPid, syscall.RLIMIT_NOFILE, &lim, nil); err != nil {
			return vh.Infraf("prlimit on the init: %v", err)
		}
	}
	created, before := 0, 0
	// one round = the programs run, Reset, and the two views are checked; a pooled container goes through many rounds
	round := func(rn int) (bool, error) {
		desc := fmt.Sprintf("round %d of %d: %s", rn+1, c.Rounds, desc)
		for pi := range c.Programs {
			s := c13Script(c, pi)
			if len(s.Ops) > 4000 {
				return false, vh.Infraf("script too long")
			}
			opts := sandboxOpts{Script: s, Env: env}
			how := c.Programs[pi].How
			waitSentinel := func() {
				p := fmt.Sprintf("/proc/%d/root/%s/zz-sentinel-%d", initPid, c.Mounts[0], pi)
				for k := 0; k < 500; k++ {
					if _, err := os.Lstat(p); err == nil {
						return
					}
					time.Sleep(10 * time.Millisecond)
				}
			}
			var cancel context.CancelFunc
			switch how {
			case "after-exec":
				opts.SyncAfterExec, opts.SyncFunc = true, func(int) error { return nil }
			case "after-exec-syncfail":
				opts.SyncAfterExec, opts.SyncFunc = true, func(int) error { waitSentinel(); return errors.New("refused by the caller") }
			case "before-exec-syncfail":
				opts.SyncFunc = func(int) error { return errors.New("refused by the caller") }
			case "cancelled":
				opts.Ctx, cancel = context.WithCancel(context.Background())
				go func() { waitSentinel(); cancel() }()
			}
			tr, err := runContainer(opts)
			if cancel != nil {
				cancel()
			}
			if err != nil {
				return false, err
			}
			if tr.Hung {
				killTagged(tr.Tag)
				return false, vh.Violf("C13:hung", "program %d did not finish; %s", pi, desc)
			}
			if how == "after-exec-syncfail" || how == "before-exec-syncfail" || how == "cancelled" {
				// the run is meant to end badly; what it left behind still has to go
			} else if tr.Result.Status != runner.StatusNormal {
				return false, vh.Infraf("tree-building program ended %v %q", tr.Result.Status, tr.Result.Error)
			}
			for _, v := range tr.Report.R {
				if v >= 0 {
					created++
				}
			}
		}
		// something must exist before Reset for the case to mean anything
		before = 0
		for _, t := range c.Mounts {
			ents, _ := os.ReadDir(fmt.Sprintf("/proc/%d/root/%s", initPid, t))
			before += len(ents)
		}
		rerr := make(chan error, 1)
		go func() { rerr <- env.Reset() }()
		select {
		case err = <-rerr:
		case <-time.After(60 * time.Second):
			return false, vh.Violf("C13:reset-hangs", "Reset did not return in 60s; %s", desc)
		}
		if err != nil {
			if c.LowNoFile {
				rec.Class("init-short-of-descriptors+200-level-chain(Reset reports the failure)", 1)
			}
			rec.Class("reset-returned-error(not judged): "+firstWords(err.Error(), 6), 1)
			rec.Case(c, false, "reset-error")
			return false, nil
		}
		// host view
		for _, t := range c.Mounts {
			dir := fmt.Sprintf("/proc/%d/root/%s", initPid, t)
			ents, err := os.ReadDir(dir)
			if err != nil {
				return false, vh.Infraf("host view of %s: %v", t, err)
			}
			// a nested tmpfs target ("scratch/inner") lives below "scratch", which is on the read-only root: fine
			if len(ents) != 0 {
				var names []string
				for _, e := range ents {
					names = append(names, fmt.Sprintf("%q(%v)", e.Name(), e.Type()))
				}
				return false, vh.Violf("C13:residue-after-reset", "Reset returned nil but /%s still contains %v; %s", t, names, desc)
			}
		}
		if c.Masks {
			for _, d := range c13SprayDirs {
				ents, _ := os.ReadDir(fmt.Sprintf("/proc/%d/root%s", initPid, d))
				for _, e := range ents {
					if strings.HasPrefix(e.Name(), "spray_") {
						return false, vh.Violf("C13:residue-after-reset", "Reset returned nil but %s (not a declared tmpfs, yet writable for the program) still contains %q; %s", d, e.Name(), desc)
					}
				}
			}
			for _, n := range []string{"public", "private/secret"} {
				if _, err := os.Lstat(dataDir + "/" + n); err != nil {
					return false, vh.Infraf("bind source lost %s: %v", n, err)
				}
			}
		}
		// a later program's view
		var ls probe.Script
		for _, t := range c.Mounts {
			ls.Add("walk:" + ls.Str("/"+t) + ":3")
		}
		var sprayWalks []int
		if c.Masks {
			for _, d := range c13SprayDirs {
				sprayWalks = append(sprayWalks, ls.Add("walk:"+ls.Str(d)+":1"))
			}
		}
		ls.Add("exit:0")
		tr, err := runContainer(sandboxOpts{Script: &ls, Env: env})
		if err != nil {
			return false, err
		}
		if tr.Hung || tr.Result.Status != runner.StatusNormal {
			killTagged(tr.Tag)
			return false, vh.Violf("C13:env-unusable-after-reset", "lister program: hung=%v %v %q; %s", tr.Hung, tr.Result.Status, tr.Result.Error, desc)
		}
		for _, w := range tr.Report.Walk {
			if c.Masks {
				// walks of the sprayed directories list what legitimately lives there; only sprayed names are residue
				under := false
				for _, t := range c.Mounts {
					if strings.HasPrefix(w.Path, "/"+t+"/") {
						under = true
					}
				}
				if !under {
					if i := strings.LastIndex(w.Path, "/"); i >= 0 && strings.HasPrefix(w.Path[i+1:], "spray_") && w.Err == 0 {
						return false, vh.Violf("C13:residue-after-reset", "a later program sees %q after Reset; %s", w.Path, desc)
					}
					continue
				}
			}
			if w.Err == 0 {
				return false, vh.Violf("C13:residue-after-reset", "a later program sees %q after Reset; %s", w.Path, desc)
			}
		}
		_ = sprayWalks
		return true, nil
	}
	rounds := c.Rounds
	if rounds < 1 {
		rounds = 1
	}
	for rn := 0; rn < rounds; rn++ {
		judged, err := round(rn)
		if err != nil || !judged {
			return err
		}
	}
	nt := false
	var classes []string
	for _, p := range c.Programs {
		for _, es := range p.PerMount {
			for _, e := range es {
				classes = append(classes, "kind="+e.Kind)
				if e.Kind == "dir000" || (e.Kind == "deep" && e.N > 20) || (e.Kind == "many" && e.N > 500) || e.Kind == "fifo" || e.Kind == "socket" {
					nt = true
				}
			}
		}
	}
	for _, p := range c.Programs {
		if p.How != "" {
			classes = append(classes, "run="+p.How)
		}
		if p.How == "after-exec-syncfail" || p.How == "cancelled" {
			nt = true
		}
	}
	classes = append(classes, fmt.Sprintf("cred=%v mounts=%d", c.Cred, len(c.Mounts)), fmt.Sprintf("resets-on-one-container=%d", rounds))
	if c.LowNoFile {
		classes = append(classes, "init-short-of-descriptors+200-level-chain(Reset succeeded anyway)")
	}
	if c.Masks {
		classes = append(classes, "masked-directories+spray")
	}
	if before == 0 {
		nt = false
		classes = append(classes, "nothing-created")
	}
	rec.Case(c, nt, dedup(classes)...)
	rec.Evals(created)
	if nt && rec.WantSample() {
		rec.Sample(c)
	}
	return nil
}

func firstWords(s string, n int) string {
	f := strings.Fields(s)
	if len(f) > n {
		f = f[:n]
	}
	return strings.Join(f, " ")
}

func TestC13Reset(t *testing.T) {
	rec := vh.NewRecorder(t, "C13", "exploration",
		"reset part: container with 1..3 tmpfs mounts (one nested) and a read-only bind, with/without a credential generator; 1..3 programs each create up to 6 entry groups per mount: files, directories, mode-000 directories with content, dot-names, names with spaces/newlines/glob characters/leading dash, dangling symlinks and symlinks to / /usr .., FIFOs, sockets, hard links across directories, 5/25/60-deep chains of 80-character names (> PATH_MAX), 10/300/2000 files in one directory, files held open by a daemon; one case in three also has a read-only bind with a masked directory and every program tries to create entries in every directory it can name (root, binds, masked directories); then Reset - the whole sequence 1..3 times on the same container; oracle: if Reset returns nil every tmpfs is empty seen from the host (/proc/<init>/root) and from a later program; non-trivial = a mode-000 directory, depth > 20, > 500 entries or a special file")
	vh.Check(t, rec, c13GenCase, func(c c13Case) error { return c13Run(c, rec) })
}

// ---- memfd ---------------------------------------------------------------------------------------------------

type c13MCase struct {
	Size   int
	Reader string // bytes file pipe onebyte failing
	FailAt int
	Name   string
	Exec   bool // content is the probe binary; a sandboxed program is run from the memfd and attacks it
	// bytes already read from the reader before it is handed over (a caller that sniffed a header): the supplied bytes
	// are what the reader still yields
	Consumed int `json:",omitempty"`
}

type oneByteReader struct{ r io.Reader }

func (o oneByteReader) Read(p []byte) (int, error) {
	if len(p) == 0 {
		return 0, nil
	}
	return o.r.Read(p[:1])
}

// dataEOFReader returns the final bytes together with io.EOF (io.Reader allows it; archive and section readers do it)
type dataEOFReader struct {
	b     []byte
	chunk int
}

func (d *dataEOFReader) Read(p []byte) (int, error) {
	if len(p) == 0 {
		return 0, nil
	}
	n := len(p)
	if d.chunk > 0 && n > d.chunk {
		n = d.chunk
	}
	if n >= len(d.b) {
		n = copy(p, d.b)
		d.b = nil
		return n, io.EOF
	}
	copy(p, d.b[:n])
	d.b = d.b[n:]
	return n, nil
}

// stutterReader returns (0, nil) every other call and otherwise odd-sized pieces
type stutterReader struct {
	r io.Reader
	n int
}

func (s *stutterReader) Read(p []byte) (int, error) {
	s.n++
	if s.n%2 == 0 || len(p) == 0 {
		return 0, nil
	}
	k := 1 + (s.n*7919)%8191
	if k > len(p) {
		k = len(p)
	}
	return s.r.Read(p[:k])
}

type failingReader struct {
	r    io.Reader
	left int
}

var errC13Reader = errors.New("reader failed on purpose")

func (f *failingReader) Read(p []byte) (int, error) {
	if f.left <= 0 {
		return 0, errC13Reader
	}
	if len(p) > f.left {
		p = p[:f.left]
	}
	n, err := f.r.Read(p)
	f.left -= n
	return n, err
}

func c13Content(n int) []byte {
	b := make([]byte, n)
	for i := range b {
		b[i] = byte(i*7 + i>>8)
	}
	return b
}

const c13AllSeals = unix.F_SEAL_SEAL | unix.F_SEAL_SHRINK | unix.F_SEAL_GROW | unix.F_SEAL_WRITE

func c13CheckSealed(f *os.File, want []byte, when string) error {
	fd := int(f.Fd())
	seals, err := unix.FcntlInt(uintptr(fd), unix.F_GET_SEALS, 0)
	if err != nil || seals&c13AllSeals != c13AllSeals {
		return vh.Violf("C13:memfd-seals", "%s: seals %#x (err %v), want at least %#x", when, seals, err, c13AllSeals)
	}
	var st unix.Stat_t
	unix.Fstat(fd, &st)
	if st.Size != int64(len(want)) {
		return vh.Violf("C13:memfd-content", "%s: size %d, supplied %d bytes", when, st.Size, len(want))
	}
	got := make([]byte, len(want))
	if len(want) > 0 {
		if n, err := unix.Pread(fd, got, 0); err != nil || n != len(want) {
			return vh.Violf("C13:memfd-content", "%s: pread %d %v", when, n, err)
		}
	}
	if !bytes.Equal(got, want) {
		return vh.Violf("C13:memfd-content", "%s: content differs from the supplied bytes (len %d)", when, len(want))
	}
	// every way of modifying it must fail
	attempts := map[string]func() error{
		"write":      func() error { _, e := unix.Pwrite(fd, []byte("X"), 0); return e },
		"append":     func() error { _, e := unix.Pwrite(fd, []byte("X"), int64(len(want))); return e },
		"truncate0":  func() error { return unix.Ftruncate(fd, 0) },
		"truncate+":  func() error { return unix.Ftruncate(fd, int64(len(want))+4096) },
		"fallocate":  func() error { return unix.Fallocate(fd, 0, 0, int64(len(want))+4096) },
		"punch-hole": func() error { return unix.Fallocate(fd, unix.FALLOC_FL_PUNCH_HOLE|unix.FALLOC_FL_KEEP_SIZE, 0, 1) },
		"mmap-shared": func() error {
			_, e := unix.Mmap(fd, 0, 4096, unix.PROT_READ|unix.PROT_WRITE, unix.MAP_SHARED)
			return e
		},
		"unseal": func() error { _, e := unix.FcntlInt(uintptr(fd), unix.F_ADD_SEALS, 0); return e },
		"reopen-write": func() error {
			nf, e := unix.Open(fmt.Sprintf("/proc/self/fd/%d", fd), unix.O_RDWR, 0)
			if e != nil {
				return e
			}
			defer unix.Close(nf)
			_, e = unix.Write(nf, []byte("X"))
			return e
		},
	}
	for name, a := range attempts {
		if (name == "punch-hole" || name == "truncate0") && len(want) == 0 {
			continue // no-ops on an empty file
		}
		if name == "unseal" {
			continue // F_ADD_SEALS with no new seal is a no-op; F_SEAL_SEAL is checked through the mask above
		}
		if err := a(); err == nil {
			return vh.Violf("C13:memfd-mutable", "%s: %s succeeded on the sealed memfd (size %d)", when, name, len(want))
		}
	}
	return nil
}

func TestC13Memfd(t *testing.T) {
	rec := vh.NewRecorder(t, "C13", "exploration",
		"memfd part: DupToMemfd(name, reader) for sizes 0, 1, 4095, 4096, 4097, 65535..65537, up to 8 MiB, from bytes.Reader, *os.File, a pipe, a one-byte-at-a-time reader, data+EOF / stuttering / limited / section readers, strings.Reader and a reader failing after k bytes, one sized reader in three already partly consumed when handed over (the supplied bytes are what it still yields); content equals the supplied bytes, offset 0, all four seals set, write/append/truncate/fallocate/punch-hole/shared writable mmap/reopen-for-write all fail - before and after a sandboxed program was run from the descriptor (ExecFile) and tried the same on /proc/self/exe and on the inherited descriptor; a failing reader yields an error and no descriptor leak; non-trivial = size > one page and not a multiple of the page size")
	probeBytes, err := os.ReadFile(probe.Path())
	if err != nil {
		t.Fatalf("INFRA: %v", err)
	}
	// no case needs a file beyond 8 MiB: a mistaken allocation (e.g. from a reader's nominal Size()) must fail with
	// EFBIG here instead of filling the machine's memory with shmem pages
	signal.Ignore(syscall.SIGXFSZ)
	lim := syscall.Rlimit{Cur: 256 << 20, Max: 256 << 20}
	if err := syscall.Setrlimit(syscall.RLIMIT_FSIZE, &lim); err != nil {
		t.Fatalf("INFRA: setrlimit: %v", err)
	}
	ce := &c09Env{}
	defer ce.close()
	runM := func(c c13MCase) error { return c13MemfdRun(c, rec, ce, probeBytes) }
	defer func() {
		// one large executable per run (a statically linked interpreter with its runtime is that big): above any
		// power-of-two cap somebody might have in mind
		if os.Getenv("VERIF_REPLAY") == "" {
			for _, big := range []c13MCase{{Size: 128<<20 + 1, Reader: "file", Name: "big"}, {Size: 64<<20 + 4097, Reader: "pipe", Name: "big"}} {
				if err := runM(big); err != nil {
					vh.Report(t, rec, big, err)
				}
			}
			rec.Write()
		}
	}()
	vh.Check(t, rec, func(rt *rapid.T) c13MCase {
		c := c13MCase{Reader: rapid.SampledFrom([]string{"bytes", "file", "pipe", "onebyte", "failing", "data+eof", "data+eof-chunked", "section", "stutter", "buffer", "limited-file", "strings", "section-bounded", "bytes", "section-bounded"}).Draw(rt, "reader")}
		c.Size = rapid.OneOf(rapid.SampledFrom([]int{0, 1, 4095, 4096, 4097, 8191, 8192, 8193, 65535, 65536, 65537}), rapid.IntRange(0, 20000), rapid.IntRange(0, 1<<20), rapid.SampledFrom([]int{4 << 20, 8<<20 + 3})).Draw(rt, "size")
		if (c.Reader == "onebyte" || c.Reader == "stutter") && c.Size > 70000 {
			c.Size = c.Size % 70000
		}
		if c.Reader == "failing" {
			c.FailAt = rapid.IntRange(0, c.Size).Draw(rt, "failat")
		}
		c.Name = rapid.SampledFrom([]string{"prog", "", "a b", "x/y", strings.Repeat("n", 200)}).Draw(rt, "name")
		c.Exec = rapid.IntRange(0, 7).Draw(rt, "exec") == 0
		switch c.Reader {
		case "bytes", "strings", "section", "section-bounded", "file", "buffer", "pipe":
			if !c.Exec && rapid.IntRange(0, 2).Draw(rt, "preconsumed") == 0 {
				c.Consumed = rapid.OneOf(rapid.SampledFrom([]int{1, 2, 4, c.Size / 2, c.Size - 1, c.Size}), rapid.IntRange(0, c.Size)).Draw(rt, "consumed")
				if c.Consumed < 0 {
					c.Consumed = 0
				}
				if c.Consumed > c.Size {
					c.Consumed = c.Size
				}
			}
		}
		return c
	}, func(c c13MCase) error { return runM(c) })
}

func init() { c13MemfdRun = c13MemfdRunImpl }

var c13MemfdRun func(c c13MCase, rec *vh.Recorder, ce *c09Env, probeBytes []byte) error

func c13MemfdRunImpl(c c13MCase, rec *vh.Recorder, ce *c09Env, probeBytes []byte) error {
	{
		want := c13Content(c.Size)
		if c.Exec {
			want = probeBytes
			c.Consumed = 0
		}
		base := fdCount()
		var r io.Reader
		var cleanup []func()
		defer func() {
			for _, f := range cleanup {
				f()
			}
		}()
		switch c.Reader {
		case "bytes":
			r = bytes.NewReader(want)
		case "onebyte":
			r = oneByteReader{bytes.NewReader(want)}
		case "data+eof":
			r = &dataEOFReader{b: want}
		case "data+eof-chunked":
			r = &dataEOFReader{b: want, chunk: 1 + c.Size%5000}
		case "strings":
			r = strings.NewReader(string(want))
		case "section-bounded":
			r = io.NewSectionReader(bytes.NewReader(want), 0, int64(len(want)))
		case "section":
			r = io.NewSectionReader(bytes.NewReader(want), 0, 1<<62)
		case "stutter":
			r = &stutterReader{r: bytes.NewReader(want)}
		case "buffer":
			r = bytes.NewBuffer(append([]byte{}, want...))
		case "limited-file":
			f, err := os.CreateTemp(vh.Getenv("VERIF_SCRATCH", "/var/tmp"), "c13")
			if err != nil {
				return vh.Infraf("%v", err)
			}
			name := f.Name()
			f.Write(want)
			f.Write([]byte("trailing bytes that are not part of the content"))
			f.Seek(0, 0)
			cleanup = append(cleanup, func() { f.Close(); os.Remove(name) })
			r = io.LimitReader(f, int64(len(want)))
		case "failing":
			r = &failingReader{r: bytes.NewReader(want), left: c.FailAt}
		case "file":
			f, err := os.CreateTemp(vh.Getenv("VERIF_SCRATCH", "/var/tmp"), "c13")
			if err != nil {
				return vh.Infraf("%v", err)
			}
			name := f.Name()
			f.Write(want)
			f.Seek(0, 0)
			cleanup = append(cleanup, func() { f.Close(); os.Remove(name) })
			r = f
		case "pipe":
			pr, pw, err := os.Pipe()
			if err != nil {
				return vh.Infraf("%v", err)
			}
			go func() { pw.Write(want); pw.Close() }()
			cleanup = append(cleanup, func() { pr.Close() })
			r = pr
		}
		if c.Consumed > 0 {
			if n, err := io.ReadFull(r, make([]byte, c.Consumed)); err != nil || n != c.Consumed {
				return vh.Infraf("pre-consuming %d bytes of a %s reader: %d %v", c.Consumed, c.Reader, n, err)
			}
			want = want[c.Consumed:]
		}
		f, err := memfd.DupToMemfd(c.Name, r)
		if c.Reader == "failing" {
			for _, cf := range cleanup {
				cf()
			}
			cleanup = nil
			if c.FailAt <= len(want) { // it errors after FailAt bytes, even when that is exactly the whole content (never EOF)
				if err == nil {
					f.Close()
					return vh.Violf("C13:memfd-error-swallowed", "reader failed after %d of %d bytes but DupToMemfd returned a file", c.FailAt, len(want))
				}
				if n := fdCount(); n != base {
					return vh.Violf("C13:memfd-leak", "failed DupToMemfd left %d descriptors (was %d)", n, base)
				}
				rec.Case(c, true, "reader=failing")
				return nil
			}
		}
		if err != nil {
			if len(c.Name) > 100 || strings.Contains(c.Name, "/") {
				rec.Class("memfd-name-refused", 1)
				return nil
			}
			return vh.Violf("C13:memfd-error", "DupToMemfd(%q, %d bytes via %s): %v", c.Name, len(want), c.Reader, err)
		}
		defer f.Close()
		if off, _ := unix.Seek(int(f.Fd()), 0, 1); off != 0 {
			return vh.Violf("C13:memfd-offset", "descriptor positioned at %d, want 0 (size %d, reader %s)", off, len(want), c.Reader)
		}
		fl, _ := unix.FcntlInt(f.Fd(), unix.F_GETFD, 0)
		if fl&unix.FD_CLOEXEC == 0 {
			return vh.Violf("C13:memfd-cloexec", "memfd is not close-on-exec")
		}
		if err := c13CheckSealed(f, want, "after creation"); err != nil {
			return err
		}
		if c.Exec {
			env, err := ce.get()
			if err != nil {
				return err
			}
			var s probe.Script
			at := uint64(0xffffffffffffff9c)
			o1 := s.Sys(sysNr["openat"], at, s.Str("/proc/self/exe"), syscall.O_WRONLY, 0)
			o2 := s.Sys(sysNr["openat"], at, s.Str("/proc/self/exe"), syscall.O_RDWR|syscall.O_TRUNC, 0)
			w4 := s.Sys(sysNr["write"], 4, s.Str("XXXX"), 4)
			t4 := s.Sys(77 /*ftruncate*/, 4, 0)
			f4 := s.Sys(285 /*fallocate*/, 4, 0, 0, 1<<20)
			m4 := s.Sys(sysNr["mmap"], 0, 4096, 3, 1 /*MAP_SHARED*/, 4, 0)
			a4 := s.Sys(sysNr["fcntl"], 4, 1033 /*F_ADD_SEALS*/, 0)
			s.Add("exit:0")
			rp, err := newReportPipe()
			if err != nil {
				return err
			}
			dn := devNullFile()
			argv := s.Argv(newTag(), 3)
			argv[0] = "/memfd-prog"
			res, hung, _ := runWithTimeout(func() runner.Result {
				return env.Execve(context.Background(), container.ExecveParam{Args: argv, Env: []string{"A=1"}, ExecFile: f.Fd(),
					Files: []uintptr{dn.Fd(), dn.Fd(), dn.Fd(), rp.pw.Fd(), f.Fd()}})
			}, 0)
			rep := rp.finish()
			if hung || res.Status != runner.StatusNormal {
				ce.close()
				return vh.Violf("C13:memfd-exec", "running the probe from the sealed memfd: hung=%v %v %q", hung, res.Status, res.Error)
			}
			for name, k := range map[string]int{"open /proc/self/exe for writing": o1, "open /proc/self/exe O_TRUNC": o2, "write to the inherited descriptor": w4,
				"ftruncate the inherited descriptor": t4, "fallocate the inherited descriptor": f4, "writable shared mmap": m4} {
				v, ok := rep.R[k]
				if !ok {
					return vh.Infraf("no result for %s: %q", name, rep.Raw)
				}
				if v >= 0 || v < -4095 {
					return vh.Violf("C13:memfd-mutable", "inside the sandbox: %s succeeded (%d)", name, v)
				}
			}
			_ = a4
			if err := c13CheckSealed(f, want, "after a program ran from it"); err != nil {
				return err
			}
		}
		nt := len(want) > 4096 && len(want)%4096 != 0
		mclasses := []string{"reader=" + c.Reader, fmt.Sprintf("exec=%v", c.Exec)}
		if c.Consumed > 0 {
			mclasses = append(mclasses, "reader-partly-consumed:"+c.Reader)
			nt = true
		}
		rec.Case(c, nt, mclasses...)
		if nt && rec.WantSample() {
			rec.Sample(c)
		}
		return nil
	}
}

package checks

// C01, environment part: the filter a policy compiles to may not depend on where the building process runs. A judge
// running inside a minimal container or chroot has no /proc/sys, no /sys, sometimes no /proc at all. A helper process in
// a private mount namespace hides a generated part of that (tmpfs over it) *before* the first Build of its life, builds
// the generated policies and judges each filter against its own policy, like the policy part does.

import (
	"bytes"
	"encoding/json"
	"fmt"
	"os"
	"os/exec"
	"syscall"
	"testing"
	"time"

	"github.com/criyle/go-sandbox/pkg/seccomp/libseccomp"
	"pgregory.net/rapid"

	"verif/internal/vh"
)

type c01EnvCase struct {
	Hide     []string // paths covered by an empty tmpfs before the first Build
	Policies []c01Case
}

type c01EnvResult struct {
	Infra  string
	Hidden []string
	Viol   *vh.Violation
	Built  int
}

func init() { roles["c01env"] = c01EnvHelper }

func c01EnvHelper() {
	var c c01EnvCase
	var res c01EnvResult
	out := func() {
		b, _ := json.Marshal(res)
		os.Stdout.Write(b)
	}
	if err := json.NewDecoder(os.Stdin).Decode(&c); err != nil {
		res.Infra = "decode: " + err.Error()
		out()
		return
	}
	// the process was started in a mount namespace of its own
	if err := syscall.Mount("none", "/", "", syscall.MS_REC|syscall.MS_PRIVATE, ""); err != nil {
		res.Infra = "make / private: " + err.Error()
		out()
		return
	}
	for _, p := range c.Hide {
		if _, err := os.Stat(p); err != nil {
			continue
		}
		if err := syscall.Mount("tmpfs", p, "tmpfs", syscall.MS_RDONLY, ""); err != nil {
			res.Infra = "hide " + p + ": " + err.Error()
			out()
			return
		}
		res.Hidden = append(res.Hidden, p)
	}
	c01Table()
	for _, p := range c.Policies {
		b := libseccomp.Builder{Allow: p.Allow, Trace: p.Trace, Default: libseccomp.Action(p.Default)}
		f, err := b.Build()
		res.Built++
		if err != nil {
			res.Viol = &vh.Violation{Key: "C01:build-error", Detail: fmt.Sprintf("Build failed for an expressible policy with %v hidden: %v; %s", res.Hidden, err, c01Brief(p))}
			break
		}
		if err := c01Light(p, f); err != nil {
			if v, ok := err.(*vh.Violation); ok {
				v.Key = "C01:depends-on-environment/" + v.Key[len("C01:"):]
				v.Detail = fmt.Sprintf("built in a process that cannot see %v: %s", res.Hidden, v.Detail)
				res.Viol = v
			} else {
				res.Infra = err.Error()
			}
			break
		}
	}
	out()
}

func c01EnvRun(c c01EnvCase, rec *vh.Recorder) error {
	in, _ := json.Marshal(c)
	self, err := os.Executable()
	if err != nil {
		return vh.Infraf("executable: %v", err)
	}
	cmd := exec.Command(self)
	cmd.Env = append(os.Environ(), "VERIF_ROLE=c01env")
	cmd.Stdin = bytes.NewReader(in)
	cmd.SysProcAttr = &syscall.SysProcAttr{Unshareflags: syscall.CLONE_NEWNS}
	var out, errb bytes.Buffer
	cmd.Stdout, cmd.Stderr = &out, &errb
	done := make(chan error, 1)
	if err := cmd.Start(); err != nil {
		return vh.Infraf("helper: %v", err)
	}
	go func() { done <- cmd.Wait() }()
	select {
	case err = <-done:
	case <-time.After(60 * time.Second):
		cmd.Process.Kill()
		<-done
		return vh.Infraf("environment helper did not finish in 60 s")
	}
	var res c01EnvResult
	if jerr := json.Unmarshal(out.Bytes(), &res); jerr != nil {
		return vh.Infraf("helper output %q stderr %q err %v", out.String(), strTail(errb.String(), 300), err)
	}
	if res.Infra != "" {
		return vh.Infraf("helper: %s", res.Infra)
	}
	if res.Viol != nil {
		return res.Viol
	}
	rec.Case(c, len(res.Hidden) > 0, fmt.Sprintf("hidden=%v", res.Hidden))
	rec.Evals(res.Built)
	if rec.WantSample() && len(res.Hidden) > 0 {
		small := c
		small.Policies = nil
		rec.Sample(map[string]any{"hidden": res.Hidden, "policies": len(c.Policies)})
	}
	return nil
}

func TestC01Environment(t *testing.T) {
	rec := vh.NewRecorder(t, "C01", "exploration",
		"environment part: a helper process in a private mount namespace covers a generated subset of {/proc/sys/kernel/seccomp, /proc/sys, /proc, /sys, /dev, /etc, /usr/include} with an empty read-only tmpfs before the first Build of its life, then builds 3..12 generated policies (as in the policy part) and judges each filter on the native arch over all table numbers + 0..1023 + foreign-arch samples; non-trivial = something was hidden")
	vh.Check(t, rec, func(rt *rapid.T) c01EnvCase {
		var c c01EnvCase
		for _, p := range []string{"/proc/sys/kernel/seccomp", "/proc/sys", "/proc", "/sys", "/dev", "/etc", "/usr/include"} {
			if rapid.IntRange(0, 2).Draw(rt, "hide-"+p) == 0 {
				c.Hide = append(c.Hide, p)
			}
		}
		n := rapid.IntRange(3, 12).Draw(rt, "npol")
		for i := 0; i < n; i++ {
			p := c01GenPolicy(rt)
			if len(p.Allow) > 40 {
				p.Allow = p.Allow[:40]
			}
			if len(p.Trace) > 40 {
				p.Trace = p.Trace[:40]
			}
			c.Policies = append(c.Policies, p)
		}
		return c
	}, func(c c01EnvCase) error { return c01EnvRun(c, rec) })
}

//go:build verif

package checks

// C19 — the control socket delivers messages, descriptors and credentials intact or not at all.

import (
	"bytes"
	"fmt"
	"os"
	"path/filepath"
	"reflect"
	"strings"
	"syscall"
	"testing"
	"time"

	"github.com/criyle/go-sandbox/container"
	"github.com/criyle/go-sandbox/pkg/rlimit"
	"github.com/criyle/go-sandbox/pkg/unixsocket"
	"golang.org/x/sys/unix"
	"pgregory.net/rapid"

	"verif/internal/vh"
)

type c19Op struct {
	Kind string // send recv
	Len  int    // payload length
	NFds int
	Cred string // none self other
	Buf  string // recv buffer: one len-1 len 32k 64k
	Seed int
	Free int // recv: >0 = the receiver has only this many free descriptor slots (RLIMIT_NOFILE lowered for the call)
}

type c19Case struct {
	PassCred bool
	Ops      []c19Op
}

func c19GenCase(rt *rapid.T) c19Case {
	c := c19Case{PassCred: rapid.Bool().Draw(rt, "passcred")}
	n := rapid.IntRange(2, 16).Draw(rt, "n")
	inflight := 0
	for i := 0; i < n; i++ {
		if inflight > 0 && (inflight >= 3 || rapid.Bool().Draw(rt, "dorecv")) {
			rop := c19Op{Kind: "recv", Buf: rapid.SampledFrom([]string{"len", "len", "32k", "64k", "64k", "len-1", "one"}).Draw(rt, "buf")}
			if rapid.IntRange(0, 7).Draw(rt, "lowfd") == 0 {
				rop.Free = rapid.IntRange(1, 4).Draw(rt, "free")
			}
			c.Ops = append(c.Ops, rop)
			inflight--
			continue
		}
		op := c19Op{Kind: "send", Seed: i}
		op.Len = rapid.OneOf(rapid.IntRange(1, 64), rapid.IntRange(1, 5000), rapid.SampledFrom([]int{32767, 32768, 32769, 65535, 65536, 65537, 70000})).Draw(rt, "len")
		op.NFds = rapid.OneOf(rapid.Just(0), rapid.IntRange(0, 4), rapid.IntRange(0, 40), rapid.SampledFrom([]int{245, 246, 252, 253, 254, 260})).Draw(rt, "nfds")
		op.Cred = rapid.SampledFrom([]string{"none", "none", "self", "other"}).Draw(rt, "cred")
		c.Ops = append(c.Ops, op)
		inflight++
	}
	for ; inflight > 0; inflight-- {
		c.Ops = append(c.Ops, c19Op{Kind: "recv", Buf: "64k"})
	}
	return c
}

func c19Payload(seed, n int) []byte {
	b := make([]byte, n)
	for i := range b {
		b[i] = byte(seed*31 + i*7 + i>>9)
	}
	return b
}

type c19Markers struct {
	files []*os.File
	ident []c06Ident
}

func newC19Markers(dir string, n int) (*c19Markers, error) {
	m := &c19Markers{}
	for i := 0; i < n; i++ {
		f, err := os.OpenFile(filepath.Join(dir, fmt.Sprintf("mk%d", i)), os.O_RDWR|os.O_CREATE, 0o644)
		if err != nil {
			return nil, vh.Infraf("%v", err)
		}
		var st unix.Stat_t
		unix.Fstat(int(f.Fd()), &st)
		m.files = append(m.files, f)
		m.ident = append(m.ident, c06Ident{st.Dev, st.Ino})
	}
	return m, nil
}

func (m *c19Markers) close() {
	for _, f := range m.files {
		f.Close()
	}
}

type c19Sent struct {
	payload []byte
	fds     []int // marker indices
	cred    *syscall.Ucred
}

func c19Run(c c19Case, mk *c19Markers, rec *vh.Recorder) error {
	a, b, err := unixsocket.NewSocketPair()
	if err != nil {
		return vh.Infraf("socketpair: %v", err)
	}
	defer a.Close()
	defer b.Close()
	if c.PassCred {
		if err := b.SetPassCred(1); err != nil {
			return vh.Infraf("passcred: %v", err)
		}
	}
	base := fdCount()
	baseList := fdList()
	var queue []c19Sent
	var classes []string
	nt := false
	desc := fmt.Sprintf("%+v", c)
	// messages already delivered stay delivered: what the receiver was handed (credentials, descriptor numbers) must read
	// the same after later messages have been received on the socket
	type held struct {
		op   int
		msg  unixsocket.Msg
		cred *syscall.Ucred
		fds  []int
	}
	var helds []held
	recheck := func(at int) error {
		for _, h := range helds {
			if h.cred != nil && (h.msg.Cred == nil || *h.msg.Cred != *h.cred) {
				return vh.Violf("C19:credentials-changed-after-delivery", "the message received at op %d carried credentials %+v; after the receive at op %d the same Msg reads %+v; %s", h.op, *h.cred, at, h.msg.Cred, desc)
			}
			if len(h.msg.Fds) != len(h.fds) {
				return vh.Violf("C19:descriptors-changed-after-delivery", "the message received at op %d had descriptors %v; after op %d the same Msg reads %v; %s", h.op, h.fds, at, h.msg.Fds, desc)
			}
			for i := range h.fds {
				if h.msg.Fds[i] != h.fds[i] {
					return vh.Violf("C19:descriptors-changed-after-delivery", "the message received at op %d had descriptors %v; after op %d the same Msg reads %v; %s", h.op, h.fds, at, h.msg.Fds, desc)
				}
			}
		}
		return nil
	}
	for oi, op := range c.Ops {
		switch op.Kind {
		case "send":
			s := c19Sent{payload: c19Payload(op.Seed, op.Len)}
			var fds []int
			for k := 0; k < op.NFds; k++ {
				idx := (op.Seed*13 + k*5) % len(mk.files)
				s.fds = append(s.fds, idx)
				fds = append(fds, int(mk.files[idx].Fd()))
			}
			msg := unixsocket.Msg{Fds: fds}
			switch op.Cred {
			case "self":
				s.cred = &syscall.Ucred{Pid: int32(os.Getpid()), Uid: uint32(os.Getuid()), Gid: uint32(os.Getgid())}
				msg.Cred = s.cred
			case "other":
				s.cred = &syscall.Ucred{Pid: int32(os.Getpid()), Uid: 4242, Gid: 4343}
				msg.Cred = s.cred
			}
			a.SetWriteDeadline(time.Now().Add(3 * time.Second))
			err := a.SendMsg(s.payload, msg)
			if err == nil {
				if op.NFds > 253 {
					return vh.Violf("C19:kernel-limit", "op %d: a message with %d descriptors was accepted; %s", oi, op.NFds, desc)
				}
				queue = append(queue, s)
			} else {
				classes = append(classes, "send-rejected")
				if op.NFds <= 253 && op.Len <= 70000 {
					return vh.Violf("C19:send-refused", "op %d: a message that fits (len %d, %d descriptors) was refused: %v; %s", oi, op.Len, op.NFds, err, desc)
				}
			}
			if op.NFds >= 245 {
				nt = true
				classes = append(classes, "fds>=245")
			}
		case "recv":
			if len(queue) == 0 {
				continue
			}
			want := queue[0]
			queue = queue[1:]
			size := map[string]int{"one": 1, "len-1": len(want.payload) - 1, "len": len(want.payload), "32k": 32 << 10, "64k": 64 << 10}[op.Buf]
			if size < 1 {
				size = 1
			}
			buf := make([]byte, size)
			b.SetReadDeadline(time.Now().Add(3 * time.Second))
			// optionally the receiver is short of descriptor slots: the kernel then installs only some of the descriptors
			// and flags the control data as truncated
			var oldLim syscall.Rlimit
			lowered := false
			lowLimit := 0
			if op.Free > 0 && len(want.fds) > op.Free {
				if syscall.Getrlimit(syscall.RLIMIT_NOFILE, &oldLim) == nil {
					open := map[int]bool{}
					self := fmt.Sprintf("=/proc/%d/fd", os.Getpid())
					for _, e := range fdList() {
						if strings.HasSuffix(e, self) || strings.HasSuffix(e, "=") {
							continue // the descriptor of this very listing (already closed again when its link is read)
						}
						var n int
						fmt.Sscanf(e, "%d=", &n)
						open[n] = true
					}
					// the limit L leaves exactly Free unused numbers below it
					free, L := 0, 0
					for free < op.Free {
						if !open[L] {
							free++
						}
						L++
					}
					for open[L] { // numbers directly above that are in use do not add free slots
						L++
					}
					nl := oldLim
					nl.Cur = uint64(L)
					lowLimit = L
					if nl.Cur < oldLim.Cur && syscall.Setrlimit(syscall.RLIMIT_NOFILE, &nl) == nil {
						lowered = true
					}
				}
			}
			n, msg, err := b.RecvMsg(buf)
			if rerr := recheck(oi); rerr != nil {
				closeInts(msg.Fds)
				return rerr
			}
			if lowered {
				syscall.Setrlimit(syscall.RLIMIT_NOFILE, &oldLim)
				nt = true
				classes = append(classes, "receiver-out-of-descriptor-slots")
				closeInts(msg.Fds)
				if err == nil {
					return vh.Violf("C19:delivered-truncated", "op %d: a message with %d descriptors was delivered (with %d of them: %v) to a receiver that had %d free slots (limit %d); %s", oi, len(want.fds), len(msg.Fds), msg.Fds, op.Free, lowLimit, desc)
				}
				continue
			}
			fits := size >= len(want.payload)
			if !fits && len(want.fds) > 0 {
				nt = true
				classes = append(classes, "truncated-with-fds")
			}
			if err != nil {
				closeInts(msg.Fds)
				if fits {
					return vh.Violf("C19:recv-failed", "op %d: receiving a %d-byte message with %d descriptors into a %d-byte buffer failed: %v; %s", oi, len(want.payload), len(want.fds), size, err, desc)
				}
				classes = append(classes, "recv-rejected")
				continue
			}
			if !fits {
				closeInts(msg.Fds)
				return vh.Violf("C19:delivered-truncated", "op %d: a %d-byte message was delivered into a %d-byte buffer (n=%d) without an error; %s", oi, len(want.payload), size, n, desc)
			}
			if n != len(want.payload) || !bytes.Equal(buf[:n], want.payload) {
				closeInts(msg.Fds)
				return vh.Violf("C19:payload", "op %d: received %d bytes, sent %d, equal=%v (wrong message or corrupted); %s", oi, n, len(want.payload), bytes.Equal(buf[:min(n, len(want.payload))], want.payload[:min(n, len(want.payload))]), desc)
			}
			if len(msg.Fds) != len(want.fds) {
				closeInts(msg.Fds)
				return vh.Violf("C19:descriptor-count", "op %d: received %d descriptors, sent %d; %s", oi, len(msg.Fds), len(want.fds), desc)
			}
			for k, fd := range msg.Fds {
				var st unix.Stat_t
				unix.Fstat(fd, &st)
				id := mk.ident[want.fds[k]]
				fl, _ := unix.FcntlInt(uintptr(fd), unix.F_GETFD, 0)
				if st.Dev != id.Dev || st.Ino != id.Ino {
					closeInts(msg.Fds)
					return vh.Violf("C19:descriptor-identity", "op %d: descriptor %d is %d:%d, sent %d:%d (order or identity lost); %s", oi, k, st.Dev, st.Ino, id.Dev, id.Ino, desc)
				}
				if fl&unix.FD_CLOEXEC == 0 {
					closeInts(msg.Fds)
					return vh.Violf("C19:descriptor-cloexec", "op %d: received descriptor %d is not close-on-exec; %s", oi, k, desc)
				}
			}
			closeInts(msg.Fds)
			if c.PassCred {
				wantCred := want.cred
				if wantCred == nil {
					wantCred = &syscall.Ucred{Pid: int32(os.Getpid()), Uid: uint32(os.Getuid()), Gid: uint32(os.Getgid())}
				}
				if msg.Cred == nil || *msg.Cred != *wantCred {
					return vh.Violf("C19:credentials", "op %d: received credentials %+v, sender specified %+v; %s", oi, msg.Cred, wantCred, desc)
				}
			}
			h := held{op: oi, msg: msg, fds: append([]int(nil), msg.Fds...)}
			if msg.Cred != nil {
				cc := *msg.Cred
				h.cred = &cc
			}
			helds = append(helds, h)
			if len(helds) >= 2 {
				classes = append(classes, "earlier-message-rechecked-after-later-receive")
			}
		}
	}
	for i := 0; i < 100 && fdCount() != base; i++ {
		time.Sleep(time.Millisecond)
	}
	if n := fdCount(); n != base {
		leaked := leakedFds(baseList)
		if n < base || len(leaked) == 0 {
			// something unrelated to this history opened/closed a descriptor (runtime, finalizer): not judged
			rec.Class("fd-count-changed-by-unrelated-descriptor(not judged)", 1)
			return nil
		}
		key := "C19:descriptor-leak"
		for _, cl := range classes {
			if cl == "truncated-with-fds" {
				key = "C19:descriptor-leak/truncated-message"
			}
		}
		return vh.Violf(key, "%d descriptors open after the history, %d before; new: %v (descriptors of a rejected message were not closed); %s", n, base, leaked, desc)
	}
	classes = append(classes, fmt.Sprintf("passcred=%v", c.PassCred))
	rec.Case(c, nt, dedup(classes)...)
	rec.Evals(len(c.Ops))
	if nt && rec.WantSample() {
		rec.Sample(c)
	}
	return nil
}

// leakedFds returns the descriptors that are open now but were not before and that can belong to the history
// (marker files, sockets, pipes); descriptors the runtime opened for itself meanwhile are not a leak of the code under test.
func leakedFds(before []string) []string {
	old := map[string]bool{}
	for _, e := range before {
		old[e] = true
	}
	var out []string
	for _, e := range fdList() {
		if old[e] {
			continue
		}
		if strings.Contains(e, "/mk") || strings.Contains(e, "socket:") || strings.Contains(e, "pipe:") || strings.Contains(e, "/marker") {
			out = append(out, e)
		}
	}
	return out
}

func fdList() []string {
	var out []string
	ents, _ := os.ReadDir("/proc/self/fd")
	for _, e := range ents {
		l, _ := os.Readlink("/proc/self/fd/" + e.Name())
		out = append(out, e.Name()+"="+l)
	}
	return out
}

func closeInts(fds []int) {
	for _, fd := range fds {
		unix.Close(fd)
	}
}

func TestC19Raw(t *testing.T) {
	rec := vh.NewRecorder(t, "C19", "exploration",
		"raw part: history of 2..16 sends/receives on a SOCK_SEQPACKET pair (receiver with/without SO_PASSCRED), <=3 messages in flight; send(payload 1..70000 bytes incl. 32767..32769 and 65535..65537, 0..260 descriptors incl. 245/246/252/253/254/260, credentials none/self/arbitrary uid+gid), recv(buffer of 1, len-1, len, 32 KiB, 64 KiB bytes); oracle: FIFO queue model - payload byte-for-byte, descriptors by fstat identity in order and close-on-exec, credentials as specified (kernel-filled when none), too-small buffer or too many descriptors => an error and nothing delivered truncated, process descriptor count back to baseline; non-trivial = a truncated message that carried descriptors, or >=245 descriptors")
	dir, err := vh.ScratchDir("c19")
	if err != nil {
		t.Fatalf("INFRA: %v", err)
	}
	defer os.RemoveAll(dir)
	mk, err := newC19Markers(dir, 8)
	if err != nil {
		t.Fatalf("%v", err)
	}
	defer mk.close()
	vh.Check(t, rec, c19GenCase, func(c c19Case) error { return c19Run(c, mk, rec) })
}

// ---- gob-framed layer ---------------------------------------------------------------------------------------

type c19GMsg struct {
	Type  string // cmd reply
	Kind  string // ping open exec big-exec big-open err-reply exec-reply batch-reply big-batch
	N     int
	NFds  int
	First bool
	// the receiver expects the other message type: the frame arrives whole (with its descriptors) and is then rejected by
	// the decoder; only generated as the last message of a history
	Mismatch bool `json:",omitempty"`
}

type c19GCase struct {
	Warm bool // start with one small message of each type (as Build does with ping/pong)
	Msgs []c19GMsg
}

func c19MakeCmd(m c19GMsg) container.VerifCmd {
	switch m.Kind {
	case "ping":
		return container.VerifCmd{Cmd: 1}
	case "open":
		var oc []container.OpenCmd
		for i := 0; i < m.N%20+1; i++ {
			oc = append(oc, container.OpenCmd{Path: fmt.Sprintf("/w/file-%d-%d", m.N, i), Flag: os.O_RDWR | os.O_CREATE, Perm: 0o644, MkdirAll: i%2 == 0})
		}
		return container.VerifCmd{Cmd: 2, OpenCmd: oc}
	case "big-open":
		var oc []container.OpenCmd
		for i := 0; i < 600; i++ {
			oc = append(oc, container.OpenCmd{Path: fmt.Sprintf("/w/%s-%d", strings.Repeat("p", 60), i), Flag: os.O_RDWR})
		}
		return container.VerifCmd{Cmd: 2, OpenCmd: oc}
	case "big-exec":
		return container.VerifCmd{Cmd: 5, ExecCmd: &container.VerifExecCmd{Argv: []string{"/bin/echo", strings.Repeat("A", 40000+m.N)}, Env: []string{"X=1"}}}
	default: // exec
		return container.VerifCmd{Cmd: 5, ExecCmd: &container.VerifExecCmd{Argv: []string{"/bin/prog", fmt.Sprintf("arg-%d", m.N), strings.Repeat("z", m.N%3000)}, Env: []string{"PATH=/bin", fmt.Sprintf("N=%d", m.N)},
			RLimits: []rlimit.RLimit{{Res: syscall.RLIMIT_CPU, Rlim: syscall.Rlimit{Cur: uint64(m.N), Max: uint64(m.N + 1)}}}, FdExec: m.N%2 == 0, SyncAfter: m.N%3 == 0}}
	}
}

func c19MakeReply(m c19GMsg) container.VerifReply {
	switch m.Kind {
	case "err-reply":
		e := syscall.Errno(m.N%100 + 1)
		return container.VerifReply{Error: &container.VerifErrorReply{Errno: &e, Msg: fmt.Sprintf("error number %d", m.N)}}
	case "exec-reply":
		return container.VerifReply{ExecReply: &container.VerifExecReply{ExitStatus: m.N % 256, Status: 7, Time: time.Duration(m.N) * time.Millisecond, Memory: 12345}}
	case "big-batch":
		var be []string
		for i := 0; i < 700; i++ {
			be = append(be, fmt.Sprintf("open /w/%s-%d: no such file or directory", strings.Repeat("q", 40), i))
		}
		return container.VerifReply{BatchErrors: be}
	case "batch-reply":
		var be []string
		for i := 0; i < m.N%12+1; i++ {
			if i%2 == 0 {
				be = append(be, "")
			} else {
				be = append(be, fmt.Sprintf("err-%d-%d", m.N, i))
			}
		}
		return container.VerifReply{BatchErrors: be}
	}
	return container.VerifReply{}
}

func TestC19Gob(t *testing.T) {
	rec := vh.NewRecorder(t, "C19", "exploration",
		"framed part: sequences of 1..12 real protocol messages (cmd: ping, open batch, execve, oversize execve/open; reply: ok, error, exec result, batch, oversize batch) over the gob-framed layer of a fresh socket pair, with 0..3 descriptors, starting with or without a small first message of each type; oracle: every message whose SendMsg succeeded is received as an equal value with its descriptors, in order; an oversize message is rejected at the sender and the following messages still decode; one message in ten is replaced by an injected frame the decoder rejects (damaged bytes, trailing bytes behind a bad length prefix, type definitions sent again by a second wrapper; 0..2 descriptors): an error at that receive, and every later message arrives intact; one history in four ends with a frame (0..3 descriptors) that the receiver decodes as the other message type: it is rejected and its descriptors reach the caller with the error; the descriptor count returns to the baseline on every path; non-trivial = an oversize message followed by a normal one of the same type")
	dir, err := vh.ScratchDir("c19g")
	if err != nil {
		t.Fatalf("INFRA: %v", err)
	}
	defer os.RemoveAll(dir)
	mk, err := newC19Markers(dir, 4)
	if err != nil {
		t.Fatalf("%v", err)
	}
	defer mk.close()
	vh.Check(t, rec, func(rt *rapid.T) c19GCase {
		c := c19GCase{Warm: rapid.IntRange(0, 3).Draw(rt, "warm") != 0}
		n := rapid.IntRange(1, 12).Draw(rt, "n")
		for i := 0; i < n; i++ {
			if rapid.Bool().Draw(rt, "iscmd") {
				c.Msgs = append(c.Msgs, c19GMsg{Type: "cmd", Kind: rapid.SampledFrom([]string{"ping", "open", "exec", "exec", "big-exec", "big-open"}).Draw(rt, "ck"), N: rapid.IntRange(0, 5000).Draw(rt, "n"), NFds: rapid.SampledFrom([]int{0, 0, 1, 2, 3, 254}).Draw(rt, "nfds")})
			} else {
				c.Msgs = append(c.Msgs, c19GMsg{Type: "reply", Kind: rapid.SampledFrom([]string{"ok", "err-reply", "exec-reply", "batch-reply", "big-batch"}).Draw(rt, "rk"), N: rapid.IntRange(0, 5000).Draw(rt, "n"), NFds: rapid.IntRange(0, 3).Draw(rt, "nfds")})
			}
		}
		for i := range c.Msgs {
			if rapid.IntRange(0, 9).Draw(rt, "garbage") == 0 {
				c.Msgs[i] = c19GMsg{Type: c.Msgs[i].Type, Kind: "garbage", N: rapid.IntRange(0, 5999).Draw(rt, "gvariant"), NFds: rapid.IntRange(0, 2).Draw(rt, "gfds")}
			}
		}
		if last := &c.Msgs[len(c.Msgs)-1]; last.Kind != "garbage" && !strings.HasPrefix(last.Kind, "big-") && last.NFds <= 253 && rapid.IntRange(0, 3).Draw(rt, "mismatch") == 0 {
			last.Mismatch = true
			if last.NFds == 0 {
				last.NFds = rapid.IntRange(0, 3).Draw(rt, "mfds")
			}
		}
		return c
	}, func(c c19GCase) error {
		a, b, err := unixsocket.NewSocketPair()
		if err != nil {
			return vh.Infraf("%v", err)
		}
		defer a.Close()
		defer b.Close()
		sa, sb := container.VerifNewSocket(a), container.VerifNewSocket(b)
		base := fdCount()
		baseList := fdList()
		desc := fmt.Sprintf("%+v", c)
		send := func(m c19GMsg) (any, error) {
			var fds []int
			for k := 0; k < m.NFds; k++ {
				fds = append(fds, int(mk.files[k%len(mk.files)].Fd()))
			}
			a.SetWriteDeadline(time.Now().Add(3 * time.Second))
			if m.Type == "cmd" {
				v := c19MakeCmd(m)
				return v, sa.SendMsg(v, unixsocket.Msg{Fds: fds})
			}
			v := c19MakeReply(m)
			return v, sa.SendMsg(v, unixsocket.Msg{Fds: fds})
		}
		recv := func(m c19GMsg) (any, unixsocket.Msg, error) {
			b.SetReadDeadline(time.Now().Add(3 * time.Second))
			if m.Type == "cmd" {
				var v container.VerifCmd
				msg, err := sb.RecvMsg(&v)
				return v, msg, err
			}
			var v container.VerifReply
			msg, err := sb.RecvMsg(&v)
			return v, msg, err
		}
		seenType := map[string]bool{}
		if c.Warm {
			for _, m := range []c19GMsg{{Type: "cmd", Kind: "ping"}, {Type: "reply", Kind: "ok"}} {
				if _, err := send(m); err != nil {
					return vh.Infraf("warm send: %v", err)
				}
				if _, _, err := recv(m); err != nil {
					return vh.Infraf("warm recv: %v", err)
				}
				seenType[m.Type] = true
			}
		}
		leakCheck := func() error {
			for i := 0; i < 50 && fdCount() != base; i++ {
				time.Sleep(time.Millisecond)
			}
			if n := fdCount(); n != base {
				if leaked := leakedFds(baseList); n > base && len(leaked) > 0 {
					return vh.Violf("C19:descriptor-leak", "framed layer: %d descriptors after, %d before; new: %v (descriptors that arrived with a rejected frame must reach the caller with the error, or be closed); %s", n, base, leaked, desc)
				}
				rec.Class("fd-count-changed-by-unrelated-descriptor(not judged)", 1)
			}
			return nil
		}
		nt := false
		poisoned := map[string]bool{} // type whose first use was an oversize message (open known finding)
		lastBig := map[string]bool{}
		for i, m := range c.Msgs {
			if m.Kind == "garbage" {
				// a frame the decoder rejects (damaged, or type definitions it has seen already), optionally carrying
				// descriptors: it is dropped whole - an error at this receive, and the messages behind it arrive intact
				var fds []int
				for k := 0; k < m.NFds; k++ {
					fds = append(fds, int(mk.files[k%len(mk.files)].Fd()))
				}
				variant := m.N % 6
				if variant == 5 && !(seenType["cmd"] && seenType["reply"]) {
					variant = 0
				}
				a.SetWriteDeadline(time.Now().Add(3 * time.Second))
				var serr error
				switch variant {
				case 0:
					serr = a.SendMsg([]byte{0x7f, 0x13, 0x99, 0x01, 0x02, 0x03, 0xff, 0xfe, 0x10, 0x20, 0x30, 0x40, 0x50, 0x60}, unixsocket.Msg{Fds: fds})
				case 1:
					serr = a.SendMsg(append([]byte{0x03, 0xff, 0xff, 0xff}, []byte{0x05, 0xff, 0x82, 0x01, 0x07, 0x00, 0x05, 0xff, 0x82, 0x01, 0x07, 0x00}...), unixsocket.Msg{Fds: fds})
				case 2:
					serr = a.SendMsg(make([]byte, 64), unixsocket.Msg{Fds: fds})
				case 3:
					serr = a.SendMsg([]byte{0x20, 0x01}, unixsocket.Msg{Fds: fds})
				case 4:
					serr = a.SendMsg(bytes.Repeat([]byte{0xff, 0x81, 0x03, 0x01, 0x01}, 200), unixsocket.Msg{Fds: fds})
				case 5:
					// a second framed wrapper on the sender's socket sends its type definitions again
					if m.Type == "cmd" {
						serr = container.VerifNewSocket(a).SendMsg(c19MakeCmd(c19GMsg{Kind: "exec", N: m.N}), unixsocket.Msg{Fds: fds})
					} else {
						serr = container.VerifNewSocket(a).SendMsg(c19MakeReply(c19GMsg{Kind: "batch-reply", N: m.N}), unixsocket.Msg{Fds: fds})
					}
				}
				if serr != nil {
					return vh.Infraf("injecting a garbage frame: %v", serr)
				}
				_, gmsg, gerr := recv(m)
				closeInts(gmsg.Fds)
				if gerr != nil {
					nt = true
					rec.Class(fmt.Sprintf("frame-rejected-by-the-decoder(variant %d, %d descriptors), then more messages", variant, m.NFds), 1)
				}
				continue
			}
			big := strings.HasPrefix(m.Kind, "big-")
			v, err := send(m)
			if big {
				if err == nil {
					// it was accepted by the sender, so it must arrive whole
					got, msg, rerr := recv(m)
					closeInts(msg.Fds)
					if rerr != nil || !reflect.DeepEqual(got, v) {
						return vh.Violf("C19:gob-oversize-accepted", "msg %d (%s) was accepted by SendMsg but not delivered equal: %v; %s", i, m.Kind, rerr, desc)
					}
					continue
				}
				if !seenType["cmd"] || !seenType["reply"] {
					// cmd and reply share component types ([]string ...): a discarded first-use definition poisons both
					poisoned["cmd"], poisoned["reply"] = true, true
				}
				lastBig[m.Type] = true
				continue
			}
			if err != nil && m.NFds > 253 {
				// the kernel refuses more than 253 descriptors per message: rejected at the sender, nothing delivered; the
				// messages that follow must be unaffected
				if !seenType["cmd"] || !seenType["reply"] {
					poisoned["cmd"], poisoned["reply"] = true, true // same encoder-state problem as an oversize first use
				}
				continue
			}
			if err != nil {
				return vh.Violf("C19:gob-send-refused", "msg %d (%s %s) that fits the frame was refused: %v; %s", i, m.Type, m.Kind, err, desc)
			}
			if m.Mismatch {
				other := m
				other.Type = map[string]string{"cmd": "reply", "reply": "cmd"}[m.Type]
				_, msg, rerr := recv(other)
				closeInts(msg.Fds)
				if rerr == nil && m.Kind != "ok" && m.Kind != "ping" {
					// (an all-zero value has no fields on the wire and decodes into anything)
					return vh.Violf("C19:gob-value", "msg %d: a %s %s was accepted by a receiver expecting the other message type; %s", i, m.Type, m.Kind, desc)
				}
				if m.NFds > 0 {
					nt = true
					rec.Class("frame-with-descriptors-rejected-by-the-decoder", 1)
				}
				return leakCheck()
			}
			got, msg, rerr := recv(m)
			if lastBig[m.Type] {
				nt = true
			}
			if poisoned[m.Type] {
				if rerr != nil {
					closeInts(msg.Fds)
					if lerr := leakCheck(); lerr != nil {
						return lerr
					}
					if !vh.Known("C19", "C19:gob-first-use-oversize") {
						return vh.Violf("C19:gob-first-use-oversize", "msg %d (%s %s) was sent successfully but cannot be received (%v): an earlier oversize message was the first use of this type on the connection, the encoder counts its type definition as transmitted although the frame was discarded; %s", i, m.Type, m.Kind, rerr, desc)
					}
					rec.Excluded("C19:gob-first-use-oversize")
					return nil // the stream is dead from here on (recorded finding); stop this history
				}
			}
			if rerr != nil {
				closeInts(msg.Fds)
				return vh.Violf("C19:gob-lost", "msg %d (%s %s) was sent successfully but receiving failed: %v; %s", i, m.Type, m.Kind, rerr, desc)
			}
			if !reflect.DeepEqual(got, v) {
				closeInts(msg.Fds)
				return vh.Violf("C19:gob-value", "msg %d (%s %s): received %+v, sent %+v; %s", i, m.Type, m.Kind, got, v, desc)
			}
			if len(msg.Fds) != m.NFds {
				closeInts(msg.Fds)
				return vh.Violf("C19:descriptor-count", "msg %d: %d descriptors received, %d sent; %s", i, len(msg.Fds), m.NFds, desc)
			}
			for k, fd := range msg.Fds {
				var st unix.Stat_t
				unix.Fstat(fd, &st)
				if st.Ino != mk.ident[k%len(mk.ident)].Ino || st.Dev != mk.ident[k%len(mk.ident)].Dev {
					closeInts(msg.Fds)
					return vh.Violf("C19:descriptor-identity", "msg %d: descriptor %d differs; %s", i, k, desc)
				}
			}
			closeInts(msg.Fds)
			seenType[m.Type] = true
			lastBig[m.Type] = false
		}
		if err := leakCheck(); err != nil {
			return err
		}
		rec.Case(c, nt, fmt.Sprintf("warm=%v", c.Warm))
		if nt && rec.WantSample() {
			rec.Sample(c)
		}
		return nil
	})
}

//go:build verif

package checks

// C11 — cancel / destroy at any moment end the run promptly with a truthful verdict.

import (
	"context"
	"fmt"
	"os"
	"strings"
	"sync"
	"sync/atomic"
	"testing"
	"time"

	"github.com/criyle/go-sandbox/container"
	"github.com/criyle/go-sandbox/pkg/seccomp/libseccomp"
	"github.com/criyle/go-sandbox/ptracer"
	"github.com/criyle/go-sandbox/runner"
	"pgregory.net/rapid"

	"verif/internal/probe"
	"verif/internal/vh"
)

type c11Case struct {
	Runner  string // ptrace unshare container
	Program string // sleep spin exit-after tree sigign daemon (a descendant that left the session; pid-namespace runners only)
	D       int    // ms before the program exits by itself (exit-after)
	Code    int
	NFiles  int    // extra listed descriptors (lengthens the launch)
	When    string // pre sync check point delay around-exit both-pending (container: the result has reached the host when the cancel is seen)
	K       int    // k-th callback
	Ban     bool   // decision of the callback in which the cancel happens
	Point   string
	DelayUs int
	Sync    bool
}

var c11Points = []string{"execve:sent", "execve:sync-reply", "execve:synced", "execve:ok-sent", "execve:wait"}

func c11GenCase(rt *rapid.T) c11Case {
	c := c11Case{Runner: rapid.SampledFrom([]string{"ptrace", "ptrace", "unshare", "container", "container"}).Draw(rt, "runner"),
		Program: rapid.SampledFrom([]string{"sleep", "spin", "exit-after", "exit-after", "tree", "sigign", "daemon"}).Draw(rt, "program"),
		D:       rapid.SampledFrom([]int{0, 1, 2, 5, 10}).Draw(rt, "d"), Code: rapid.SampledFrom([]int{0, 0, 7}).Draw(rt, "code"),
		NFiles: rapid.SampledFrom([]int{0, 0, 4, 12, 24}).Draw(rt, "nfiles"), K: rapid.IntRange(0, 4).Draw(rt, "k"), Ban: rapid.Bool().Draw(rt, "ban"),
		Point: rapid.SampledFrom(c11Points).Draw(rt, "point"), Sync: rapid.Bool().Draw(rt, "sync")}
	c.DelayUs = rapid.OneOf(rapid.IntRange(0, 600), rapid.IntRange(0, 3000), rapid.IntRange(0, 15000)).Draw(rt, "delayus")
	whens := []string{"pre", "delay", "delay", "delay", "around-exit"}
	switch c.Runner {
	case "ptrace":
		whens = append(whens, "check", "check", "sync")
	case "unshare":
		whens = append(whens, "sync")
	case "container":
		whens = append(whens, "point", "point", "sync", "both-pending", "both-pending")
	}
	c.When = rapid.SampledFrom(whens).Draw(rt, "when")
	if c.When == "sync" {
		c.Sync = true
	}
	if c.When == "around-exit" {
		c.Program = "exit-after"
	}
	if c.When == "both-pending" {
		c.Program, c.D = "exit-after", 0
	}
	if c.Program == "daemon" && c.Runner == "ptrace" {
		c.Program = "tree" // the ptrace runner confines by policy (setsid is not on its allow list), not by a pid namespace
	}
	return c
}

var c11PointMu sync.Mutex

func c11Run(c c11Case, ce *c09Env, rec *vh.Recorder) error {
	var s probe.Script
	at := uint64(0xffffffffffffff9c)
	marker := -1
	traced := func() { // a few traced calls so that Handler callbacks happen (ptrace runner)
		for i := 0; i < 6; i++ {
			s.Sys(sysNr["newfstatat"], at, s.Str("/proc/self/stat"), "!buf", 0)
		}
	}
	switch c.Program {
	case "sleep":
		traced()
		s.Add("sleep:60000")
	case "spin":
		traced()
		s.Add("spin:60000")
	case "exit-after":
		traced()
		if c.D > 0 {
			s.Add(fmt.Sprintf("sleep:%d", c.D))
		}
		marker = s.Sys(sysNr["getppid"])
	case "tree":
		s.Add("fork{")
		s.Add("sigign")
		s.Add("fork{")
		s.Add("sleep:60000")
		s.Add("}")
		s.Add("sleep:60000")
		s.Add("}")
		traced()
		s.Add("sleep:60000")
	case "sigign":
		s.Add("sigign")
		traced()
		s.Add("sleep:60000")
	case "daemon":
		s.Add("daemon{")
		s.Add("sleep:60000")
		s.Add("}")
		traced()
		s.Add("sleep:60000")
	}
	s.Add(fmt.Sprintf("exit:%d", c.Code))
	allow := append([]string{"fork", "clone", "kill", "rt_sigprocmask", "execve", "execveat"}, probeBaseAllow...)
	if c.Program == "daemon" {
		allow = append(allow, "setsid")
	}
	var trace []string
	if c.Runner == "ptrace" {
		trace = []string{"newfstatat"}
	} else {
		allow = append(allow, "newfstatat")
	}
	filter, err := buildFilter(allow, trace, libseccomp.ActionKill)
	if err != nil {
		return vh.Infraf("filter: %v", err)
	}
	ctx, cancel := context.WithCancel(context.Background())
	defer cancel()
	var cancelledAt atomic.Int64
	doCancel := func() {
		if cancelledAt.CompareAndSwap(0, time.Now().UnixNano()) {
			cancel()
		}
	}
	var extra []*os.File
	for i := 0; i < c.NFiles; i++ {
		extra = append(extra, devNullFile())
	}
	tag := newTag()
	var syncFn func(int) error
	if c.Sync {
		syncFn = func(int) error {
			if c.When == "sync" {
				doCancel()
			}
			return nil
		}
	}
	h := &recHandler{}
	var ncb atomic.Int64
	h.Decide = func(r hRecord) ptracer.TraceAction {
		n := int(ncb.Add(1)) - 1
		if c.When == "check" && n == c.K {
			doCancel()
			if c.Ban {
				return ptracer.TraceBan
			}
		}
		return ptracer.TraceAllow
	}
	if c.When == "pre" {
		doCancel()
	}
	if c.When == "point" {
		c11PointMu.Lock()
		container.VerifHook.Point = func(name string) {
			if name == c.Point {
				doCancel()
			}
		}
		defer func() { container.VerifHook.Point = nil; c11PointMu.Unlock() }()
	}
	if c.When == "both-pending" {
		// hold the host at its wait point until the program's result has been received from the container, then cancel:
		// the select in waitForDone finds both the result and the cancellation ready
		c11PointMu.Lock()
		var okSent atomic.Bool
		resultSeen := make(chan struct{})
		var once sync.Once
		container.VerifHook.Msg = func(_ *container.VerifSocket, dir, kind string) {
			if dir == "recv" && okSent.Load() {
				once.Do(func() { close(resultSeen) })
			}
		}
		container.VerifHook.Point = func(name string) {
			switch name {
			case "execve:ok-sent":
				okSent.Store(true)
			case "execve:wait":
				select {
				case <-resultSeen:
					time.Sleep(time.Duration(200+c.DelayUs%800) * time.Microsecond) // from the socket into the channel
				case <-time.After(3 * time.Second):
				}
				doCancel()
			}
		}
		defer func() { container.VerifHook.Point, container.VerifHook.Msg = nil, nil; c11PointMu.Unlock() }()
	}
	start := time.Now()
	switch c.When {
	case "delay":
		go func() {
			if c.Program == "daemon" {
				// the interesting instants are those after the daemon has left the program's session
				for dl := time.Now().Add(2 * time.Second); time.Now().Before(dl) && len(liveTagged(tag)) < 2; {
					time.Sleep(500 * time.Microsecond)
				}
				time.Sleep(3 * time.Millisecond) // the intermediate process of the double fork is gone by then
			}
			time.Sleep(time.Duration(c.DelayUs) * time.Microsecond)
			doCancel()
		}()
	case "around-exit":
		go func() {
			// the launch takes a few ms; aim at the program's own exit +- a sweep
			time.Sleep(time.Duration(c.D)*time.Millisecond + time.Duration(c.DelayUs)*time.Microsecond)
			doCancel()
		}()
	}
	var tr *tracedResult
	switch c.Runner {
	case "ptrace":
		tr, err = runTraced(tracedOpts{Script: &s, Filter: filter, Handler: h, Ctx: ctx, Tag: tag, Extra: extra, SyncFunc: syncFn, Timeout: 10 * time.Second})
	case "unshare":
		tr, err = runUnshare(sandboxOpts{Script: &s, Filter: filter, Ctx: ctx, Tag: tag, Extra: extra, SyncFunc: syncFn, Timeout: 10 * time.Second})
	default:
		var env container.Environment
		env, err = ce.get()
		if err != nil {
			return err
		}
		tr, err = runContainer(sandboxOpts{Script: &s, Filter: filter, Ctx: ctx, Tag: tag, Extra: extra, SyncFunc: syncFn, Env: env, Timeout: 10 * time.Second})
	}
	if err != nil {
		return err
	}
	desc := fmt.Sprintf("%+v", c)
	if cancelledAt.Load() == 0 {
		// the cancellation instant was never reached (e.g. fewer callbacks than K): cancel now so the run ends
		doCancel()
		if tr.Hung {
			time.Sleep(500 * time.Millisecond)
			killTagged(tag)
			ce.close()
			rec.Class("instant-not-reached", 1)
			return nil
		}
	}
	if tr.Hung {
		infos := taggedInfo(tag)
		killTagged(tag)
		ce.close()
		alive := false
		for _, p := range infos {
			if p.State != "Z" {
				alive = true
			}
		}
		if alive {
			key := "C11:cancellation-lost"
			if c.When == "pre" || c.DelayUs < 1000 {
				key = "C11:cancellation-lost/before-setsid"
			}
			return vh.Violf(key, "the context was cancelled %v after the call started, 10 s later the run has not returned and the program is alive and not being killed: %+v; %s", time.Duration(cancelledAt.Load()-start.UnixNano()), infos, desc)
		}
		return vh.Violf("C11:run-never-returns", "cancelled run did not return although nothing of the program is alive; %s", desc)
	}
	res := tr.Result
	ended := marker >= 0 && tr.Report != nil && func() bool { _, ok := tr.Report.R[marker]; return ok }()
	switch res.Status {
	case runner.StatusTimeLimitExceeded:
	case runner.StatusNormal, runner.StatusNonzeroExitStatus:
		if !ended {
			return vh.Violf("C11:untruthful-verdict", "verdict %v exit %d but the program cannot have finished (no end marker; it %s); %s", res.Status, res.ExitStatus, c.Program, desc)
		}
		if res.ExitStatus != c.Code {
			return vh.Violf("C11:untruthful-verdict", "exit %d reported, the program exits %d; %s", res.ExitStatus, c.Code, desc)
		}
	case runner.StatusRunnerError:
		key := "C11:cancel-as-runner-error"
		if strings.Contains(res.Error, "no such process") {
			key = "C11:cancel-as-runner-error/esrch"
		}
		if c.Runner == "container" {
			ce.close()
		}
		return vh.Violf(key, "cancellation reported as Runner Error %q; %s", res.Error, desc)
	case runner.StatusDisallowedSyscall:
		return vh.Violf("C11:cancel-as-policy-violation", "cancellation reported as Disallowed Syscall (%q); %s", res.Error, desc)
	default:
		return vh.Violf("C11:untruthful-verdict", "verdict %v exit %d %q for a cancelled run; %s", res.Status, res.ExitStatus, res.Error, desc)
	}
	if err := c12NoTagged(tag, nil, desc); err != nil {
		ce.close()
		return err
	}
	if c.Runner == "container" {
		env, _ := ce.get()
		if e := env.Ping(); e != nil {
			ce.close()
			return vh.Violf("C11:env-broken-by-cancel", "Ping after a cancelled Execve: %v; %s", e, desc)
		}
		// the environment is pooled: the next run on it must work (and be cancellable) like on a fresh one
		var fs probe.Script
		fs.Add("exit:7")
		ftr, ferr := runContainer(sandboxOpts{Script: &fs, Env: env, Timeout: 10 * time.Second})
		if ferr != nil {
			return ferr
		}
		if ftr.Hung {
			killTagged(ftr.Tag)
			ce.close()
			return vh.Violf("C11:env-broken-by-cancel", "the next Execve (exit 7) on the environment did not return within 10 s; %s", desc)
		}
		if ftr.Result.Status != runner.StatusNonzeroExitStatus || ftr.Result.ExitStatus != 7 {
			ce.close()
			return vh.Violf("C11:env-broken-by-cancel", "the next Execve (exit 7) on the environment returned %v exit %d %q; %s", ftr.Result.Status, ftr.Result.ExitStatus, ftr.Result.Error, desc)
		}
	}
	between := cancelledAt.Load() > start.UnixNano() && res.Status == runner.StatusTimeLimitExceeded && c.When != "pre"
	rec.Case(c, between, "runner="+c.Runner, "when="+c.When, "verdict="+res.Status.String())
	if between && rec.WantSample() {
		rec.Sample(c)
	}
	return nil
}

func TestC11Cancel(t *testing.T) {
	rec := vh.NewRecorder(t, "C11", "exploration",
		"cancel part: runner in {ptrace, unshare, container} x program in {sleeps, spins, exits n after d ms, forks a signal-ignoring tree, ignores all signals, starts a daemon that left its session (pid-namespace runners)} x launch length (0..24 extra listed descriptors) x cancellation instant in {context already cancelled, inside SyncFunc, inside the k-th Handler callback with an allow or ban answer (tracee stopped at a syscall), at each named host point of Execve (tag-verif hooks: sent, sync-reply, synced, ok-sent, wait), 0..15000 us after the call (biased to 0..600), around the program's own exit, container: held at the host's wait point until the program's result has arrived (both events pending)}; "+
			"oracle: returns within 10 s (otherwise the program is alive and nobody is killing it = cancellation lost); verdict is Time Limit Exceeded or the program's genuine verdict (only with its end marker); never Runner Error or Disallowed Syscall; nothing tagged survives; the environment answers Ping and runs the next program (exit 7); non-trivial = the cancellation fell between call entry and the program's end and the verdict is TLE")
	ce := &c09Env{}
	defer ce.close()
	vh.Check(t, rec, c11GenCase, func(c c11Case) error { return c11Run(c, ce, rec) })
}

// ---- Destroy with a call in flight ------------------------------------------------------------------------------------

type c11DCase struct {
	Op      string // execve open ping idle
	DelayUs int
	Point   string // "" or a named point at which Destroy is started
	Tree    bool
}

func TestC11Destroy(t *testing.T) {
	rec := vh.NewRecorder(t, "C11", "exploration", "destroy part: Destroy called from another goroutine 0..20000 us after, or at a named host point of, an in-flight Execve (sleeping program, optionally with a signal-ignoring tree) / Open / Ping, or on an idle environment; oracle: the in-flight call returns (an error unless it had completed), Destroy returns within 10 s, the init and everything tagged is gone")
	efd, err := probeExecFd()
	if err != nil {
		t.Fatalf("INFRA: %v", err)
	}
	vh.Check(t, rec, func(rt *rapid.T) c11DCase {
		c := c11DCase{Op: rapid.SampledFrom([]string{"execve", "execve", "execve", "open", "ping", "idle"}).Draw(rt, "op"), Tree: rapid.Bool().Draw(rt, "tree")}
		c.DelayUs = rapid.OneOf(rapid.IntRange(0, 500), rapid.IntRange(0, 20000)).Draw(rt, "delay")
		if c.Op == "execve" && rapid.Bool().Draw(rt, "atpoint") {
			c.Point = rapid.SampledFrom(c11Points).Draw(rt, "point")
		}
		return c
	}, func(c c11DCase) error {
		env, root, err := buildContainer(nil)
		if err != nil {
			return vh.Infraf("build: %v", err)
		}
		defer os.RemoveAll(root)
		init := container.VerifInitPid(env)
		tag := newTag()
		desc := fmt.Sprintf("%+v", c)
		destroyDone := make(chan error, 1)
		var once sync.Once
		destroy := func() { once.Do(func() { go func() { destroyDone <- env.Destroy() }() }) }
		if c.Point != "" {
			c11PointMu.Lock()
			container.VerifHook.Point = func(name string) {
				if name == c.Point {
					destroy()
					time.Sleep(time.Duration(c.DelayUs%2000) * time.Microsecond)
				}
			}
			defer func() { container.VerifHook.Point = nil; c11PointMu.Unlock() }()
		}
		callDone := make(chan string, 1)
		switch c.Op {
		case "execve":
			var s probe.Script
			if c.Tree {
				s.Add("fork{")
				s.Add("sigign")
				s.Add("sleep:60000")
				s.Add("}")
			}
			s.Add("sleep:60000")
			argv := s.Argv(tag, 3)
			argv[0] = "/vprobe"
			go func() {
				r := env.Execve(context.Background(), container.ExecveParam{Args: argv, Env: []string{"A=1"}, ExecFile: efd})
				callDone <- fmt.Sprintf("%v %q", r.Status, r.Error)
			}()
		case "open":
			var cmds []container.OpenCmd
			for i := 0; i < 100; i++ {
				cmds = append(cmds, container.OpenCmd{Path: fmt.Sprintf("/w/f%d", i), Flag: os.O_RDWR | os.O_CREATE, Perm: 0o644})
			}
			go func() {
				res, err := env.Open(cmds)
				closeAll(res)
				callDone <- fmt.Sprint(err)
			}()
		case "ping":
			go func() { callDone <- fmt.Sprint(env.Ping()) }()
		case "idle":
			callDone <- "idle"
		}
		if c.Point == "" {
			time.Sleep(time.Duration(c.DelayUs) * time.Microsecond)
		} else {
			// if the point is never reached, destroy after a while anyway
			time.AfterFunc(50*time.Millisecond, destroy)
		}
		destroy()
		var callRes string
		select {
		case callRes = <-callDone:
		case <-time.After(10 * time.Second):
			killTagged(tag)
			return vh.Violf("C11:destroy-call-hangs", "the in-flight %s did not return within 10 s of Destroy; %s", c.Op, desc)
		}
		select {
		case <-destroyDone:
		case <-time.After(10 * time.Second):
			killTagged(tag)
			return vh.Violf("C11:destroy-hangs", "Destroy did not return within 10 s (in-flight call returned %s); %s", callRes, desc)
		}
		if c.Op == "execve" && strings.HasPrefix(callRes, " ") {
			// Normal ("" status string) for a program that sleeps a minute
			return vh.Violf("C11:untruthful-verdict", "Execve of a sleeping program returned %q after Destroy; %s", callRes, desc)
		}
		if c.Op == "execve" && !strings.HasPrefix(callRes, "Runner Error") && !strings.HasPrefix(callRes, "Time Limit") {
			return vh.Violf("C11:untruthful-verdict", "Execve of a sleeping program returned %q after Destroy; %s", callRes, desc)
		}
		deadline := time.Now().Add(3 * time.Second)
		for {
			_, err := os.Stat(fmt.Sprintf("/proc/%d", init))
			live := liveTagged(tag)
			if err != nil && len(live) == 0 {
				break
			}
			if time.Now().After(deadline) {
				killTagged(tag)
				return vh.Violf("C11:destroy-leaves-processes", "3 s after Destroy returned: init exists=%v, tagged alive %v; %s", err == nil, live, desc)
			}
			time.Sleep(5 * time.Millisecond)
		}
		rec.Case(c, c.Op != "idle", "op="+c.Op, fmt.Sprintf("point=%q", c.Point))
		if c.Op != "idle" && rec.WantSample() {
			rec.Sample(c)
		}
		return nil
	})
}

// TestC11EarlyCancel concentrates on the launch window of the ptrace runner: Start returns right after clone, and a
// cancellation that arrives before the child's setsid finds no process group to kill. Many listed descriptors lengthen
// the window (one dup3 per descriptor precedes setsid).
func TestC11EarlyCancel(t *testing.T) {
	rec := vh.NewRecorder(t, "C11", "exploration", "early-cancel part: ptrace runner, sleeping program, 24..250 listed descriptors, context already cancelled or cancelled 0..300 us after the call; same oracle as the cancel part")
	ce := &c09Env{}
	defer ce.close()
	vh.Check(t, rec, func(rt *rapid.T) c11Case {
		c := c11Case{Runner: "ptrace", Program: "sleep", NFiles: rapid.SampledFrom([]int{24, 100, 250}).Draw(rt, "nfiles"), When: rapid.SampledFrom([]string{"pre", "delay"}).Draw(rt, "when")}
		c.DelayUs = rapid.IntRange(0, 300).Draw(rt, "delayus")
		return c
	}, func(c c11Case) error { return c11Run(c, ce, rec) })
}

//go:build verif

package checks

// C17, independence part (causal, no timing assumptions beyond a 60 s bound):
//  1. "pending-call": environment E runs a program that blocks until the harness releases it; a second call on E
//     (Open/Ping/Symlink/Delete/Reset) is queued behind it; an unrelated sandbox U (ptrace run, namespace run, Execve on
//     another environment, Build of a new environment) is then started and must complete with its own result while E's
//     program is still blocked - U's result may not depend on what is in flight elsewhere.
//  2. "failed-start-then-build": a goroutine makes a ptrace run whose launch fails, then builds an environment, hands it
//     over and ends; the environment must keep working for the other goroutines exactly as when no run preceded it.

import (
	"context"
	"errors"
	"fmt"
	"github.com/criyle/go-sandbox/pkg/forkexec"
	"os"
	"runtime"
	"strings"
	"sync"
	"syscall"
	"testing"
	"time"

	"github.com/criyle/go-sandbox/container"
	"github.com/criyle/go-sandbox/pkg/seccomp/libseccomp"
	"github.com/criyle/go-sandbox/runner"
	"github.com/criyle/go-sandbox/runner/ptrace"
	"pgregory.net/rapid"

	"verif/internal/probe"
	"verif/internal/vh"
)

type c17ICase struct {
	Scenario string // pending-call | failed-start-then-build | emfile-start | thread-with-history
	Pending  string // open ping symlink delete reset
	Other    string // ptrace unshare container build
	DelayMs  int    // how long the queued call has been waiting when U starts
	Fail     string // bad-workdir syncfunc-error closed-fd none
	Idle     int    // ms between the goroutine's end and the first use of its environment
	Code     int
}

func c17Unrelated(kind string, code int, other container.Environment) (string, error) {
	var s probe.Script
	s.Add(fmt.Sprintf("exit:%d", code))
	var tr *tracedResult
	var err error
	switch kind {
	case "ptrace":
		allow := append([]string{"execve", "execveat"}, probeBaseAllow...)
		filter, _ := buildFilter(allow, nil, libseccomp.ActionKill)
		tr, err = runTraced(tracedOpts{Script: &s, Filter: filter, Handler: &recHandler{}, Timeout: 60 * time.Second})
	case "unshare":
		tr, err = runUnshare(sandboxOpts{Script: &s, Timeout: 60 * time.Second})
	case "container":
		tr, err = runContainer(sandboxOpts{Script: &s, Env: other, Timeout: 60 * time.Second})
	case "build":
		type b struct {
			env  container.Environment
			root string
			err  error
		}
		ch := make(chan b, 1)
		go func() { e, r, err := buildContainer(nil); ch <- b{e, r, err} }()
		select {
		case x := <-ch:
			if x.err != nil {
				return "", vh.Infraf("build: %v", x.err)
			}
			defer os.RemoveAll(x.root)
			defer x.env.Destroy()
			tr, err = runContainer(sandboxOpts{Script: &s, Env: x.env, Timeout: 60 * time.Second})
		case <-time.After(60 * time.Second):
			go func() {
				if x := <-ch; x.err == nil {
					x.env.Destroy()
					os.RemoveAll(x.root)
				}
			}()
			return "hung (Build)", nil
		}
	}
	if err != nil {
		return "", err
	}
	if tr.Hung {
		killTagged(tr.Tag)
		return "hung", nil
	}
	return fmt.Sprintf("%v exit %d %s", tr.Result.Status, tr.Result.ExitStatus, tr.Result.Error), nil
}

func c17Independence(c c17ICase, rec *vh.Recorder) error {
	desc := fmt.Sprintf("%+v", c)
	want := fmt.Sprintf("%v exit %d ", runner.StatusNonzeroExitStatus, c.Code)
	switch c.Scenario {
	case "pending-call":
		ce, ce2 := &c09Env{}, &c09Env{}
		defer ce.close()
		defer ce2.close()
		env, err := ce.get()
		if err != nil {
			return err
		}
		var other container.Environment
		if c.Other == "container" {
			if other, err = ce2.get(); err != nil {
				return err
			}
		}
		// alone first: what U returns when nothing else is going on
		alone, err := c17Unrelated(c.Other, c.Code, other)
		if err != nil {
			return err
		}
		if strings.HasPrefix(alone, "hung") {
			return vh.Infraf("the unrelated %s run did not finish in 60 s even alone (machine saturated)", c.Other)
		}
		if alone != want {
			return vh.Violf("C17:wrong-result", "alone, the unrelated run returns %q, want %q; %s", alone, want, desc)
		}
		gr, gw, err := os.Pipe()
		if err != nil {
			return vh.Infraf("pipe: %v", err)
		}
		defer gr.Close()
		defer gw.Close()
		var s probe.Script
		s.Add("waitgo:4")
		s.Add("exit:41")
		inFlight := make(chan struct{})
		var once sync.Once
		c11PointMu.Lock()
		container.VerifHook.Point = func(name string) {
			if name == "execve:wait" {
				once.Do(func() { close(inFlight) })
			}
		}
		unhook := func() { container.VerifHook.Point = nil; c11PointMu.Unlock() }
		resCh := make(chan *tracedResult, 1)
		go func() {
			tr, _ := runContainer(sandboxOpts{Script: &s, Env: env, Extra: []*os.File{gr}, Timeout: 60 * time.Second})
			resCh <- tr
		}()
		select {
		case <-inFlight:
		case <-time.After(30 * time.Second):
			unhook()
			return vh.Infraf("Execve never reached its wait point")
		}
		unhook()
		pend := make(chan error, 1)
		go func() {
			switch c.Pending {
			case "open":
				res, err := env.Open([]container.OpenCmd{{Path: "/w/pending", Flag: os.O_RDWR | os.O_CREATE, Perm: 0o644}})
				closeAll(res)
				pend <- err
			case "ping":
				env.Ping() // its own 3 s deadline may fire while it waits; only that it returns matters here
				pend <- nil
			case "symlink":
				_, err := env.Symlink([]container.SymbolicLink{{LinkPath: "/w/pl", Target: "t"}})
				pend <- err
			case "delete":
				env.Delete("/w/none")
				pend <- nil
			default:
				pend <- env.Reset()
			}
		}()
		time.Sleep(time.Duration(c.DelayMs) * time.Millisecond)
		// U while E's program is blocked and a second call on E is queued
		got, uerr := c17Unrelated(c.Other, c.Code, other)
		// release E whatever happened
		gw.Write([]byte{1})
		var etr *tracedResult
		select {
		case etr = <-resCh:
		case <-time.After(20 * time.Second):
		}
		select {
		case <-pend:
		case <-time.After(20 * time.Second):
			return vh.Violf("C17:queued-call-hangs", "the call queued behind the Execve never returned; %s", desc)
		}
		if uerr != nil {
			return uerr
		}
		if got != alone {
			key := "C17:differs-from-alone"
			if got == "hung" || got == "hung (Build)" {
				key = "C17:blocked-by-another-sandbox"
			}
			return vh.Violf(key, "unrelated %s run: alone %q; with a program blocked in another environment and a %s call queued on that environment: %q; %s", c.Other, alone, c.Pending, got, desc)
		}
		if etr == nil || etr.Hung || etr.Result.Status != runner.StatusNonzeroExitStatus || etr.Result.ExitStatus != 41 {
			return vh.Violf("C17:inflight-call-disturbed", "the blocked program (exit 41 once released) returned %+v; %s", etr, desc)
		}
	case "failed-start-then-build":
		type built struct {
			env    container.Environment
			root   string
			err    error
			runErr string
		}
		ch := make(chan built, 1)
		go func() {
			var b built
			if c.Fail != "none" {
				var s probe.Script
				s.Add("exit:0")
				allow := append([]string{"execve", "execveat"}, probeBaseAllow...)
				filter, _ := buildFilter(allow, nil, libseccomp.ActionKill)
				dn := devNullFile()
				r := &ptrace.Runner{Args: s.Argv(newTag(), 3), Env: []string{"VP=1"}, Files: []uintptr{dn.Fd(), dn.Fd(), dn.Fd()}, Seccomp: filter,
					Handler: &recHandler{}, Limit: runner.Limit{TimeLimit: 5 * time.Second, MemoryLimit: 1 << 30}}
				r.Args[0] = probe.Path()
				switch c.Fail {
				case "bad-workdir":
					r.WorkDir = "/nonexistent-workdir"
				case "syncfunc-error":
					r.SyncFunc = func(int) error { return errors.New("attach to the control group failed") }
				case "closed-fd":
					r.Files = append(r.Files, 987)
				}
				res := r.Run(context.Background())
				b.runErr = fmt.Sprintf("%v %q", res.Status, res.Error)
			}
			b.env, b.root, b.err = buildContainer(nil)
			ch <- b
		}() // the goroutine ends here
		var b built
		select {
		case b = <-ch:
		case <-time.After(30 * time.Second):
			return vh.Violf("C17:blocked-by-another-sandbox", "a failing ptrace launch followed by Build did not finish in 30 s; %s", desc)
		}
		if b.err != nil {
			return vh.Infraf("build: %v", b.err)
		}
		defer os.RemoveAll(b.root)
		defer b.env.Destroy()
		if c.Fail != "none" && b.runErr[:len("Runner Error")] != "Runner Error" {
			return vh.Infraf("the launch was meant to fail: %s", b.runErr)
		}
		// let the runtime retire whatever the ended goroutine was bound to
		time.Sleep(time.Duration(c.Idle) * time.Millisecond)
		runtime.GC()
		if err := b.env.Ping(); err != nil {
			return vh.Violf("C17:environment-killed-by-unrelated-run", "an environment built by a goroutine that had a failed ptrace launch (%s) before and has ended since: Ping: %v; %s", b.runErr, err, desc)
		}
		got, err := c17Unrelated("container", c.Code, b.env)
		if err != nil {
			return err
		}
		if got != want {
			return vh.Violf("C17:environment-killed-by-unrelated-run", "an environment built by a goroutine that had a failed ptrace launch (%s) before and has ended since: Execve returns %q, want %q; %s", b.runErr, got, want, desc)
		}
	case "emfile-start":
		// a launch fails because the process has no descriptor left for the launcher's internal socket pair; once
		// descriptors are available again every other launch in the process must work as when nothing had failed
		var old syscall.Rlimit
		if err := syscall.Getrlimit(syscall.RLIMIT_NOFILE, &old); err != nil {
			return vh.Infraf("getrlimit: %v", err)
		}
		dn := devNullFile()
		efd, err := probeExecFd()
		if err != nil {
			return err
		}
		var ps probe.Script
		ps.Add("exit:0")
		fr := &forkexec.Runner{Args: ps.Argv(newTag(), 3), Env: []string{"A=1"}, ExecFile: efd, Files: []uintptr{dn.Fd(), dn.Fd(), dn.Fd()}}
		if c.Fail == "syncfunc-error" {
			fr.SyncFunc = func(int) error { return nil }
		}
		low := old
		low.Cur = 0
		if err := syscall.Setrlimit(syscall.RLIMIT_NOFILE, &low); err != nil {
			return vh.Infraf("setrlimit: %v", err)
		}
		pid, serr := fr.Start()
		syscall.Setrlimit(syscall.RLIMIT_NOFILE, &old)
		if serr == nil {
			var ws syscall.WaitStatus
			syscall.Kill(pid, syscall.SIGKILL)
			syscall.Wait4(pid, &ws, 0, nil)
			return vh.Infraf("a launch with RLIMIT_NOFILE 0 succeeded")
		}
		results := make([]string, 4)
		var wg sync.WaitGroup
		for k := range results {
			wg.Add(1)
			go func(k int) {
				defer wg.Done()
				results[k], _ = c17Unrelated([]string{"ptrace", "unshare", "build", "unshare"}[k], c.Code+k, nil)
			}(k)
		}
		wg.Wait()
		for k, r := range results {
			if w := fmt.Sprintf("%v exit %d ", runner.StatusNonzeroExitStatus, c.Code+k); r != w {
				key := "C17:differs-from-alone"
				if strings.HasPrefix(r, "hung") {
					key = "C17:blocked-by-another-sandbox"
				}
				v := vh.Violf(key, "after a launch that failed for lack of descriptors (%v), launch %d of 4 concurrent ones returned %q, want %q; %s", serr, k, r, w, desc)
				if strings.HasPrefix(r, "hung") {
					// nothing can be launched from this process any more: report now, there is nothing to shrink with
					vh.ReportAndExit(rec, "TestC17Independence", c, v.(*vh.Violation))
				}
				return v
			}
		}
	case "thread-with-history":
		// one OS thread: first it forks something long-lived for another sandbox (a container init, or a namespace-runner
		// child), then a ptrace run happens on the same thread; each must behave as alone
		type out struct {
			res, other string
			err        error
		}
		ch := make(chan out, 1)
		go func() {
			runtime.LockOSThread()
			defer runtime.UnlockOSThread()
			var o out
			var env container.Environment
			var root string
			otherDone := make(chan string, 1)
			switch c.Other {
			case "build", "container":
				env, root, o.err = buildContainer(nil)
				if o.err != nil {
					ch <- o
					return
				}
			default:
				// a namespace run that is still going while the ptrace run starts and ends
				go func() {
					var s probe.Script
					s.Add("sleep:800")
					s.Add("exit:33")
					tr, err := runUnshare(sandboxOpts{Script: &s, Timeout: 20 * time.Second})
					switch {
					case err != nil:
						otherDone <- "infra " + err.Error()
					case tr.Hung:
						otherDone <- "hung"
					default:
						otherDone <- fmt.Sprintf("%v exit %d %s", tr.Result.Status, tr.Result.ExitStatus, tr.Result.Error)
					}
				}()
				time.Sleep(100 * time.Millisecond)
			}
			o.res, o.err = c17Unrelated("ptrace", c.Code, nil)
			if env != nil {
				if e := env.Ping(); e != nil {
					o.other = "ping: " + e.Error()
				} else if r, _ := c17Unrelated("container", 34, env); r != fmt.Sprintf("%v exit %d ", runner.StatusNonzeroExitStatus, 34) {
					o.other = r
				} else if e := env.Destroy(); e != nil {
					o.other = "destroy: " + e.Error()
				} else {
					o.other = "ok"
				}
				env.Destroy()
				os.RemoveAll(root)
			} else {
				select {
				case r := <-otherDone:
					if r == fmt.Sprintf("%v exit %d ", runner.StatusNonzeroExitStatus, 33) {
						r = "ok"
					}
					o.other = r
				case <-time.After(25 * time.Second):
					o.other = "namespace run never returned"
				}
			}
			ch <- o
		}()
		select {
		case o := <-ch:
			if o.err != nil {
				return o.err
			}
			if o.res != want {
				return vh.Violf("C17:blocked-by-another-sandbox", "a ptrace run on a thread that had forked for another sandbox (%s) returned %q, want %q; %s", c.Other, o.res, want, desc)
			}
			if o.other != "ok" {
				return vh.Violf("C17:differs-from-alone", "the other sandbox forked from the same thread (%s) afterwards: %q; %s", c.Other, o.other, desc)
			}
		case <-time.After(60 * time.Second):
			return vh.Violf("C17:blocked-by-another-sandbox", "a ptrace run on a thread that had forked for another sandbox (%s) did not come back within 60 s; %s", c.Other, desc)
		}
	}
	rec.Case(c, c.Scenario == "pending-call" || c.Fail != "none", "scenario="+c.Scenario, "pending="+c.Pending, "unrelated="+c.Other, "failed-launch="+c.Fail)
	if rec.WantSample() {
		rec.Sample(c)
	}
	return nil
}

var _ = strings.HasPrefix

func TestC17Independence(t *testing.T) {
	rec := vh.NewRecorder(t, "C17", "exploration",
		"independence part: (1) a program blocked in environment E (released by the harness) + a second call on E queued behind it in {Open, Ping, Symlink, Delete, Reset} for 1..30 ms, then an unrelated sandbox in {ptrace run, namespace run, Execve on another environment, Build of a new environment + Execve} must return the same result as alone while E is still blocked (60 s bound); (3) a launch fails for lack of descriptors (RLIMIT_NOFILE 0 for the moment of the Start), then four concurrent launches must work; (4) one OS thread forks a container init or a namespace-runner child and then hosts a ptrace run: both behave as alone; (2) a goroutine makes a ptrace run whose launch fails in {missing work dir, refusing SyncFunc, closed descriptor in Files, none}, builds an environment, hands it over and ends; after 0..50 ms the environment must answer Ping and run a program; non-trivial = scenario 1, or scenario 2 with a failed launch")
	vh.Check(t, rec, func(rt *rapid.T) c17ICase {
		c := c17ICase{Scenario: rapid.SampledFrom([]string{"pending-call", "pending-call", "failed-start-then-build", "failed-start-then-build", "emfile-start", "thread-with-history", "thread-with-history"}).Draw(rt, "scenario"), Code: rapid.IntRange(2, 100).Draw(rt, "code")}
		c.Pending = rapid.SampledFrom([]string{"open", "open", "ping", "symlink", "delete", "reset"}).Draw(rt, "pending")
		c.Other = rapid.SampledFrom([]string{"ptrace", "ptrace", "unshare", "container", "build"}).Draw(rt, "other")
		c.DelayMs = rapid.SampledFrom([]int{1, 5, 30}).Draw(rt, "delay")
		c.Fail = rapid.SampledFrom([]string{"bad-workdir", "syncfunc-error", "closed-fd", "none"}).Draw(rt, "fail")
		c.Idle = rapid.SampledFrom([]int{0, 5, 50}).Draw(rt, "idle")
		switch c.Scenario {
		case "pending-call":
			c.Fail, c.Idle = "", 0
		case "thread-with-history":
			c.Pending, c.DelayMs, c.Fail, c.Idle = "", 0, "", 0
		case "emfile-start":
			c.Pending, c.Other, c.DelayMs, c.Idle = "", "", 0, 0
		default:
			c.Pending, c.Other, c.DelayMs = "", "", 0
		}
		return c
	}, func(c c17ICase) error { return c17Independence(c, rec) })
}

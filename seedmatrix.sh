#!/bin/bash
# seedmatrix.sh: every recorded seeded change against the quick tier of its property's check (sequential: each one patches /repo)
cd /verif
out=/var/tmp/vp-seedmatrix.txt; : > $out
for d in seeded/*/; do
  n=$(basename $d); id=${n%%-*}
  [ -f $d/patch.diff ] || continue
  case $n in C09-B) echo "$n skipped (needs 8 GiB)" >> $out; continue;; esac
  r=$(./seedrerun.sh $n $id quick 2>&1 | tail -1)
  echo "$n $r" >> $out
done
echo DONE >> $out

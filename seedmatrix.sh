#!/bin/bash
# seedmatrix.sh: every recorded seeded change against the quick tier of its property's check (sequential: each one patches the repository).
# In /verif it patches /repo itself (nothing else may run meanwhile). As a background run it works on copies:
#   vp run --with-repo --timeout 3h -- ./seedmatrix.sh     (snapshot of /verif + snapshot of /repo in $VP_RUN_REPO; result in ./seedmatrix.txt there)
HERE="$(cd "$(dirname "${BASH_SOURCE[0]}")" && pwd)"
cd $HERE
export GOFLAGS=-mod=mod GOPROXY=off
if [ -n "${VP_RUN_REPO:-}" ]; then
  export SEED_REPO=$VP_RUN_REPO
  go mod edit -replace github.com/criyle/go-sandbox=$VP_RUN_REPO
  ./vcheck setup >/dev/null
fi
out=$HERE/seedmatrix.txt; : > $out
for d in seeded/*/; do
  n=$(basename $d); id=${n%%-*}
  [ -f $d/patch.diff ] || continue
  case $n in C09-B) echo "$n skipped (needs 8 GiB)" >> $out; continue;; esac
  [ -n "${SEED_ONLY:-}" ] && ! echo "$n" | grep -q -E -- "$SEED_ONLY" && continue
  r=$(SEED_NOTE="matrix run $(git -C $HERE rev-parse --short HEAD)" ./seedrerun.sh $n $id quick 2>&1 | tail -1)
  echo "$n $r" >> $out
done
echo DONE >> $out

#!/bin/bash
# runall.sh <tier> <seed> [parallelism]: run every claimed check concurrently (load test of the checks themselves)
TIER=${1:-quick}; SEED=${2:-1}; PAR=${3:-10}
mkdir -p /var/tmp/vp-runall
ids=$(python3 -c "import json;print(' '.join(c['property_id'] for c in json.load(open('/verif/MANIFEST.json'))['checks']))")
printf '%s\n' $ids | xargs -P $PAR -I{} bash -c "VERIF_SEED=$SEED /usr/bin/time -f '{} %es' ./vcheck {} $TIER > /var/tmp/vp-runall/{}.$TIER.$SEED.log 2>&1; echo {} rc=\$? \$(tail -1 /var/tmp/vp-runall/{}.$TIER.$SEED.log)"

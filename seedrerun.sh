#!/bin/bash
# seedrerun.sh <seed-name> [check-ID] [tier]: apply a recorded seeded change to /repo, run our check, restore /repo, append the outcome to meta.json
# SEED_REPO=<dir> runs against another checkout of the repository (the go.mod replace of this /verif copy must point there: seedmatrix.sh
# does that in a `vp run --with-repo` snapshot); SEED_NOTE overrides the note recorded with the outcome.
set -u
NAME=$1; ID=${2:-${NAME%%-*}}; TIER=${3:-quick}
export GOFLAGS=-mod=mod GOPROXY=off
HERE="$(cd "$(dirname "${BASH_SOURCE[0]}")" && pwd)"
REPO=${SEED_REPO:-/repo}
D=$HERE/seeded/$NAME
git -C $REPO status --short | grep -q . && { echo "$REPO not clean"; exit 5; }
git -C $REPO apply "$D/patch.diff" || exit 5
rm -rf $HERE/replays/$ID
mkdir -p /var/tmp/vp-seedlogs
cd $HERE && ./vcheck "$ID" "$TIER" > /var/tmp/vp-seedlogs/$NAME.$ID.log 2>&1; rc=$?
git -C $REPO apply -R "$D/patch.diff" 2>/dev/null || { git -C $REPO checkout -- .; git -C $REPO clean -fdq; }   # (-R also removes files the change added)
grep -E '^(VIOLATION|  detail|OK|INFRA)' /var/tmp/vp-seedlogs/$NAME.$ID.log | head -4
echo "vcheck $ID $TIER on $NAME rc=$rc"
if [ "$rc" = 1 ]; then rm -rf "$D/replays"; [ -d $HERE/replays/$ID ] && mv $HERE/replays/$ID "$D/replays"; fi
git -C $HERE checkout -q -- replays evidence 2>/dev/null
python3 - "$NAME" "$ID" "$TIER" "$rc" "$HERE" "${SEED_NOTE:-after strengthening the check}" <<'PY'
import json,sys,os
NAME,ID,TIER,rc,HERE,NOTE=sys.argv[1:]
p='%s/seeded/%s/meta.json'%(HERE,NAME)
d=json.load(open(p))
first=[l for l in open('/var/tmp/vp-seedlogs/%s.%s.log'%(NAME,ID)) if l.startswith(('VIOLATION','  detail'))][:2]
d.setdefault('runs',[]).append({"cmd":"./vcheck %s %s"%(ID,TIER),"exit":int(rc),"detected":int(rc)==1,"first_report":"".join(first).strip(),"note":NOTE})
json.dump(d,open(p,'w'),indent=1)
PY

#!/bin/bash
# seedrerun.sh <seed-name> [check-ID] [tier]: apply a recorded seeded change to /repo, run our check, restore /repo, append the outcome to meta.json
set -u
NAME=$1; ID=${2:-${NAME%%-*}}; TIER=${3:-quick}
export GOFLAGS=-mod=mod GOPROXY=off
D=/verif/seeded/$NAME
git -C /repo status --short | grep -q . && { echo "/repo not clean"; exit 5; }
git -C /repo apply "$D/patch.diff" || exit 5
rm -rf /verif/replays/$ID
mkdir -p /var/tmp/vp-seedlogs
cd /verif && ./vcheck "$ID" "$TIER" > /var/tmp/vp-seedlogs/$NAME.$ID.log 2>&1; rc=$?
git -C /repo checkout -- .
grep -E '^(VIOLATION|  detail|OK|INFRA)' /var/tmp/vp-seedlogs/$NAME.$ID.log | head -4
echo "vcheck $ID $TIER on $NAME rc=$rc"
if [ "$rc" = 1 ]; then rm -rf "$D/replays"; [ -d /verif/replays/$ID ] && mv /verif/replays/$ID "$D/replays"; fi
python3 - "$NAME" "$ID" "$TIER" "$rc" <<'PY'
import json,sys,os
NAME,ID,TIER,rc=sys.argv[1:]
p='/verif/seeded/%s/meta.json'%NAME
d=json.load(open(p))
first=[l for l in open('/var/tmp/vp-seedlogs/%s.%s.log'%(NAME,ID)) if l.startswith(('VIOLATION','  detail'))][:2]
d.setdefault('runs',[]).append({"cmd":"./vcheck %s %s"%(ID,TIER),"exit":int(rc),"detected":int(rc)==1,"first_report":"".join(first).strip(),"note":"after strengthening the check"})
json.dump(d,open(p,'w'),indent=1)
PY

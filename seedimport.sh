#!/bin/bash
# seedimport.sh <ID> <A|B> <pkgdir> <NAME> <SRCDIR>: phase 1 of seedtest.sh in a worktree of its own (so that several can run in
# parallel and /repo is not touched): demo passes on the unchanged tree, fails with the patch, suite unchanged.
# On success the change is recorded under seeded/<NAME>/ (no check has been run against it yet: use seedrerun.sh <NAME>).
set -u
ID=$1; L=$2; PKG=$3; NAME=$4; OUT=$5
export GOFLAGS=-mod=mod GOPROXY=off
WT=/tmp/seedc-$NAME
git -C /repo worktree add -q --detach "$WT" HEAD 2>/dev/null || { git -C "$WT" checkout -q --detach "$(git -C /repo rev-parse HEAD)"; git -C "$WT" checkout -q -- .; git -C "$WT" clean -qfd; }
DEMO=$OUT/${L}_demo_test.go; PATCH=$OUT/$L.patch.diff
LOG=/tmp/seed-out/import.$NAME
RUN="Test(C[0-9]+)?(Demo|Seed)?(C[0-9]+)?_?${L}(_|$|[A-Z])"
cp "$DEMO" "$WT/$PKG/zz_demo_${L}_test.go"
( cd "$WT" && go test -tags "${SEED_TAGS:-}" -vet=off -count=1 -run "$RUN" "./$PKG/" ) >$LOG.base.log 2>&1; base=$?
if ! git -C "$WT" apply "$PATCH"; then echo "$NAME PATCH DOES NOT APPLY"; git -C /repo worktree remove --force "$WT"; exit 3; fi
( cd "$WT" && go test -tags "${SEED_TAGS:-}" -vet=off -count=1 -run "$RUN" "./$PKG/" ) >$LOG.mut.log 2>&1; mut=$?
rm "$WT/$PKG/zz_demo_${L}_test.go"
sf() { grep -E '^(FAIL\s+\S|--- FAIL)' $LOG.suite.log | grep -v -E 'pkg/cgroup|TestCgroupAll' | wc -l; }
( cd "$WT" && go build ./... && go test -vet=off -count=1 ./... ) >$LOG.suite.log 2>&1; suite_fail=$(sf)
if [ "$suite_fail" != 0 ]; then ( cd "$WT" && go test -vet=off -count=1 ./... ) >$LOG.suite.log 2>&1; suite_fail=$(sf); fi
git -C /repo worktree remove --force "$WT"
echo "$NAME demo unchanged rc=$base (want 0); with change rc=$mut (want !=0); suite failures besides cgroup: $suite_fail (want 0)"
if [ "$base" != 0 ] || [ "$mut" = 0 ] || [ "$suite_fail" != 0 ]; then echo "$NAME SEED NOT CONFIRMED"; exit 4; fi
D=/verif/seeded/$NAME; mkdir -p "$D"
cp "$PATCH" "$D/patch.diff"; cp "$DEMO" "$D/demo_test.go"; cp "$OUT/$L.meta.txt" "$D/meta.txt" 2>/dev/null
python3 - "$ID" "$L" "$PKG" "$D" <<'PY'
import json,sys,os
ID,L,PKG,D=sys.argv[1:]
meta=open(os.path.join(D,'meta.txt')).read() if os.path.exists(os.path.join(D,'meta.txt')) else ''
json.dump({"property":ID,"origin":"independent sub-agent given only the property text and a scratch worktree","demo":"demo_test.go copied into %s/, go test -run TestDemo%s ./%s/ : passes on the unchanged tree, fails with patch.diff (confirmed by seedimport.sh)"%(PKG,L,PKG),
 "needs_to_manifest":meta.strip(),"suite":"go build ./... && go test ./... unchanged with the patch (only the known pkg/cgroup failure)","runs":[]},open(os.path.join(D,'meta.json'),'w'),indent=1)
PY
echo "$NAME CONFIRMED"
